//! Helper crate added to the *scratch* workspace only (never to /repo).
//! Holds Kani stubs that `dust_dds` itself cannot contain because of `#![forbid(unsafe_code)]`.
//! Assumption made explicit by these stubs: `critical_section::with` gives mutual exclusion, so the
//! body of every critical section is one atomic step (C32/C34).
#![no_std]

/// Stub for `critical_section::acquire`: no-op.
pub unsafe fn cs_acquire() -> critical_section::RestoreState {
    critical_section::RestoreState::invalid()
}

/// Stub for `critical_section::release`: no-op.
pub unsafe fn cs_release(_restore_state: critical_section::RestoreState) {}

extern crate alloc;

/// Stub for `alloc::fmt::format` (the function behind `format!` / `to_string` on error paths): returns an empty
/// string.  Only the *text* of error messages is abstracted; which error variant is returned is untouched.
pub fn fmt_format_stub(_args: core::fmt::Arguments<'_>) -> alloc::string::String {
    alloc::string::String::new()
}
