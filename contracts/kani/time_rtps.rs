    // @unit name=time_rtps file=dds/src/rtps_messages/types.rs
    // Child module of dds/src/rtps_messages/types.rs (C14): the second copy of the fraction conversions and the
    // transport Time <-> wire Time conversions.  Loop-free, full domain => complete.

    // Function contract on the real encoder copy (see unit time_dds for the rationale).
    // @attr {"anchor": "^fn nanosec_to_fraction\\(", "lines": ["#[cfg_attr(kani, kani::requires(nanosec < 1_000_000_000))]", "#[cfg_attr(kani, kani::ensures(|f: &u32| fraction_to_nanosec(*f) == nanosec))]"]}
    // @assume contract of rtps_messages/types.rs::nanosec_to_fraction is used by stub_verified; its proof is the Verus obligation nanosec_to_fraction_rtps (same text)

    /// nanoseconds survive transport Time -> wire fraction -> transport Time (copy in rtps_messages/types.rs);
    /// Kani twin / counterexample finder of the Verus obligation nanosec_to_fraction_rtps.
    /// @props C14
    /// @kind proof
    /// @tier quick
    /// @role finder
    /// @timeout 40
    /// @fn rtps_messages/types.rs::nanosec_to_fraction, rtps_messages/types.rs::fraction_to_nanosec
    #[cfg_attr(kani, kani::proof_for_contract(nanosec_to_fraction))]
    fn c14_rtps_nanosec_fraction_roundtrip() {
        let n: u32 = kani::any();
        kani::assume(n < 1_000_000_000);
        let back = fraction_to_nanosec(nanosec_to_fraction(n));
        assert!(back == n, "C14: nanosec -> fraction -> nanosec is the identity (rtps_messages/types.rs)");
    }

    /// every wire fraction decodes to a normalized nanosecond count (rtps_messages/types.rs copy).
    /// @props C14
    /// @kind proof
    /// @tier quick
    /// @fn rtps_messages/types.rs::fraction_to_nanosec
    #[cfg_attr(kani, kani::proof)]
    fn c14_rtps_fraction_to_nanosec_normalized() {
        let f: u32 = kani::any();
        assert!(fraction_to_nanosec(f) < 1_000_000_000);
        kani::cover!(f == u32::MAX);
    }

    /// transport Time -> wire Time -> transport Time keeps seconds and nanoseconds (sec >= 0: the wire field is u32).
    /// @props C14
    /// @kind proof
    /// @tier quick
    /// @fn <rtps_messages::types::Time as From<transport::types::Time>>::from, <transport::types::Time as From<rtps_messages::types::Time>>::from
    #[cfg_attr(kani, kani::proof)]
    #[cfg_attr(kani, kani::stub_verified(nanosec_to_fraction))]
    fn c14_transport_time_wire_roundtrip() {
        let sec: i32 = kani::any();
        let nanosec: u32 = kani::any();
        kani::assume(sec >= 0 && nanosec < 1_000_000_000);
        let t = crate::transport::types::Time::new(sec, nanosec);
        let w = Time::from(t);
        let back = crate::transport::types::Time::from(w);
        assert!(back.sec() == sec && back.nanosec() == nanosec, "C14: source timestamp survives the wire");
        kani::cover!(nanosec == 999_999_999);
    }
