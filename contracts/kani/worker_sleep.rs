    // @unit name=worker_sleep file=dds/src/dds_async/domain_participant_factory.rs
    // Child module of dds/src/dds_async/domain_participant_factory.rs (C31).  The sleep computation lives inside the
    // `async move` worker closure and cannot be called; the statement is copied verbatim into a generated function
    // whose parameters are its free variables (DESIGN.md 2.2).
    // @statement {"start": "let next_task_time = poke_time", "end": ";", "signature": "fn verif_next_task_time(poke_time: Duration, time_until_missed_reader_deadline: Option<Duration>, time_until_missed_writer_deadline: Option<Duration>, time_until_stale_participant: Option<Duration>, time_until_stale_writer_sample: Option<Duration>, time_until_pending_writer_sample_timeout: Option<Duration>, time_until_participant_announcement: Option<Duration>) -> Duration", "epilogue": "\n        next_task_time"}

    fn any_opt_duration() -> Option<Duration> {
        let present: u8 = kani::any();
        let sec: i32 = kani::any();
        let nanosec: u32 = kani::any();
        kani::assume(nanosec < 1_000_000_000);
        if present & 1 == 1 { Some(Duration::new(sec, nanosec)) } else { None }
    }

    /// Whatever the six "time until ..." values are (absent, overdue/negative, tiny, huge), the delay handed to the
    /// timer — core::time::Duration::from(next_task_time) — never exceeds the 50 ms poke period.
    /// @props C31
    /// @kind proof
    /// @tier quick
    /// @fn DomainParticipantFactoryAsync::new (worker loop statement `let next_task_time = ...`), <core::time::Duration as From<Duration>>::from
    #[cfg_attr(kani, kani::proof)]
    fn c31_worker_sleep_at_most_poke_period() {
        let poke_time = Duration::new(0, 50_000_000);
        let a = any_opt_duration();
        let b = any_opt_duration();
        let c = any_opt_duration();
        let d = any_opt_duration();
        let e = any_opt_duration();
        let f = any_opt_duration();
        let next = verif_next_task_time(poke_time, a, b, c, d, e, f);
        let sleep: core::time::Duration = next.into();
        assert!(sleep <= core::time::Duration::from_millis(50), "C31: the worker never sleeps longer than the poke period");
        assert!(next <= poke_time);
        kani::cover!(next < Duration::new(0, 0));
        kani::cover!(next == poke_time);
    }
