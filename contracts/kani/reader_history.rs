    // @unit name=reader_history file=dds/src/dcps/dcps_domain_participant/data_reader_entity.rs unwind=4 unwindset=memcmp.0:18
    // Child module of data_reader_entity.rs (C18, C19, C21): Hoare-triple obligations on the REAL
    // DataReaderEntity<()>::add_reader_change, as inductive steps: the reader's history is an ARBITRARY well-formed state of
    // the stated size (2 stored samples over 2 instance handles, symbolic timestamps / kinds / QoS), the incoming change is
    // arbitrary, and the post-state is compared against the statement of the property.  wf = every stored sample's instance
    // is known in `instances`, plus the property-specific part (sorted by source timestamp for C21; per instance at most
    // `depth` ALIVE samples for C18; limits respected for C19).
    // @assume alloc::fmt::format stubbed (error message texts only)
    // @assume time-based filter off (minimum_separation = 0, the default) and SHARED ownership in these obligations; those branches are the subject of C24/C25

    use crate::infrastructure::qos_policy::{HistoryQosPolicy, Length, ResourceLimitsQosPolicy, DestinationOrderQosPolicy};

    fn ih(b: u8) -> InstanceHandle {
        InstanceHandle::new([b, 0, 0, 0, 0, 0, 0, 0, 0, 0, 0, 0, 0, 0, 0, 0])
    }
    fn any_ih() -> (u8, InstanceHandle) {
        let b: u8 = kani::any();
        kani::assume(b == 1 || b == 2);
        (b, ih(b))
    }
    fn any_ts() -> Time {
        let s: u8 = kani::any();
        Time::new(s as i32, 0)
    }
    fn payload(tag: u8) -> Arc<[u8]> {
        Arc::from([tag].as_slice())
    }
    fn stored(tag: u8, h: InstanceHandle, ts: Time, kind: ChangeKind) -> ReaderSample {
        ReaderSample {
            kind,
            writer_guid: [7; 16],
            instance_handle: h,
            source_timestamp: Some(ts),
            data_value: payload(tag),
            sample_state: SampleStateKind::NotRead,
            disposed_generation_count: 0,
            no_writers_generation_count: 0,
        }
    }
    fn mk_reader(history: HistoryQosPolicyKind, order: DestinationOrderQosPolicyKind, limits: ResourceLimitsQosPolicy) -> DataReaderEntity<()> {
        let mut qos = DataReaderQos::const_default();
        qos.history = HistoryQosPolicy { kind: history };
        qos.destination_order = DestinationOrderQosPolicy { kind: order };
        qos.resource_limits = limits;
        let mut r = DataReaderEntity::new(ih(99), qos, String::new(), ());
        r.enabled = true;
        r.instances.push(InstanceState::new(ih(1)));
        r.instances.push(InstanceState::new(ih(2)));
        r
    }
    fn unlimited() -> ResourceLimitsQosPolicy {
        ResourceLimitsQosPolicy { max_samples: Length::Unlimited, max_instances: Length::Unlimited, max_samples_per_instance: Length::Unlimited }
    }
    fn any_history() -> HistoryQosPolicyKind {
        let d: u8 = kani::any();
        kani::assume(d <= 3);
        if d == 0 { HistoryQosPolicyKind::KeepAll } else { HistoryQosPolicyKind::KeepLast(d as u32) }
    }
    fn outcome(r: &DdsResult<AddChangeResult>) -> u8 {
        match r {
            Ok(AddChangeResult::Added) => 0,
            Ok(AddChangeResult::NotAdded) => 1,
            Ok(AddChangeResult::Rejected(_, _)) => 2,
            Err(_) => 3,
        }
    }
    fn tag_of(s: &ReaderSample) -> u8 {
        s.data_value[0]
    }

    fn check_c21(history: HistoryQosPolicyKind, same_instance: bool) {
        check_c21_ts(history, same_instance, None)
    }
    fn check_c21_ts(history: HistoryQosPolicyKind, same_instance: bool, fixed: Option<(u8, u8)>) {
        let mut r = mk_reader(history, DestinationOrderQosPolicyKind::BySourceTimestamp, unlimited());
        let (_, h0) = if same_instance { (1, ih(1)) } else { any_ih() };
        let (_, h1) = if same_instance { (1, ih(1)) } else { any_ih() };
        let (t0, t1) = match fixed {
            Some((a, b)) => (Time::new(a as i32, 0), Time::new(b as i32, 0)),
            None => (any_ts(), any_ts()),
        };
        kani::assume(t0 <= t1);
        r.sample_list.push(stored(10, h0, t0, ChangeKind::Alive));
        r.sample_list.push(stored(11, h1, t1, ChangeKind::Alive));
        let (_, hn) = if same_instance { (1, ih(1)) } else { any_ih() };
        let tn = any_ts();
        let res = r.add_reader_change(Guid::new([7; 12], crate::transport::types::EntityId::new([7, 7, 7], 7)), payload(12),
            ChangeKind::Alive, *hn.as_ref(), Some(tn), Time::new(1000, 0));
        assert!(outcome(&res) == 0, "C21: with no limits and no filter the sample is added");
        let l = &r.sample_list;
        assert!(l.len() == 2 || l.len() == 3);
        let mut i = 1;
        while i < l.len() {
            assert!(l[i - 1].source_timestamp <= l[i].source_timestamp,
                "C21: stored samples stay ordered by non-decreasing source timestamp whatever the arrival order");
            i += 1;
        }
        let mut found = false;
        let mut k = 0;
        while k < l.len() {
            if tag_of(&l[k]) == 12 {
                found = true;
                assert!(l[k].source_timestamp == Some(tn) && l[k].instance_handle == hn);
            }
            k += 1;
        }
        assert!(found, "C21: the new sample is stored");
        kani::cover!(tn < t0);
        kani::cover!(tn > t1);
        kani::cover!(t0 < tn && tn < t1);
        kani::cover!(tn == t0);
        core::mem::forget(r);
        core::mem::forget(res);
    }

    /// C21 inductive step, KEEP_ALL.  BY_SOURCE_TIMESTAMP reader, no resource limits, two stored ALIVE samples with arbitrary
    /// instance handles and arbitrary source timestamps (equal ones included) sorted by non-decreasing source timestamp, an
    /// arbitrary incoming ALIVE sample (any instance, any timestamp - older, between, equal or newer): the sample is Added,
    /// afterwards the stored list is again sorted by non-decreasing source timestamp and contains the new sample with its
    /// timestamp.  (Arrival order is arbitrary because the pre-state and the new timestamp are.)
    /// @props C21
    /// @kind bounded
    /// @tier quick
    /// @timeout 1500
    /// @bounds 2 stored samples, 2 instance handles, timestamps sec in 0..=255 and nanosec 0
    /// @fn DataReaderEntity::add_reader_change
    #[cfg_attr(kani, kani::proof)]
    #[cfg_attr(kani, kani::stub(alloc::fmt::format, verif_support::fmt_format_stub))]
    fn c21_insert_keeps_source_timestamp_order_keep_all() {
        check_c21(HistoryQosPolicyKind::KeepAll, false);
    }

    /// C21 inductive step, KEEP_LAST(2) with a full instance: both stored samples and the incoming one belong to the same
    /// instance, so the oldest is evicted before the insertion; the remaining list plus the new sample must still be sorted
    /// by source timestamp (the insert position must be computed on the list the sample is inserted into).
    /// @props C21
    /// @kind bounded
    /// @tier extended
    /// @timeout 2400
    /// @bounds 2 stored samples of one instance, KEEP_LAST(2), timestamps sec in 0..=255 and nanosec 0
    /// @fn DataReaderEntity::add_reader_change
    #[cfg_attr(kani, kani::proof)]
    #[cfg_attr(kani, kani::stub(alloc::fmt::format, verif_support::fmt_format_stub))]
    fn c21_insert_keeps_source_timestamp_order_keep_last_eviction() {
        check_c21(HistoryQosPolicyKind::KeepLast(2), true);
    }

    /// Reduced form of the eviction obligation (thorough tier as well: 11-25 min in CBMC depending on machine load): stored timestamps 20 s and 40 s (concrete), the incoming timestamp is
    /// arbitrary (before, between, equal, after), KEEP_LAST(2), one instance.
    /// @props C21
    /// @kind bounded
    /// @tier extended
    /// @timeout 3000
    /// @bounds 2 stored samples of one instance with timestamps 20 s and 40 s, KEEP_LAST(2), incoming timestamp sec in 0..=255
    /// @fn DataReaderEntity::add_reader_change
    #[cfg_attr(kani, kani::proof)]
    #[cfg_attr(kani, kani::stub(alloc::fmt::format, verif_support::fmt_format_stub))]
    fn c21_insert_after_eviction_fixed_history() {
        check_c21_ts(HistoryQosPolicyKind::KeepLast(2), true, Some((20, 40)));
    }

    /// C18 inductive step.  BY_RECEPTION_TIMESTAMP reader with KEEP_LAST(depth), depth in 1..=2, resource limits arbitrary
    /// but consistent with the history (max_samples_per_instance >= depth or unlimited, max_samples >= 2 * that or
    /// unlimited so that the total limit cannot be the reason, max_instances unlimited), two stored ALIVE samples with
    /// arbitrary instance handles such that no instance holds more than depth, an arbitrary incoming ALIVE sample:
    /// the sample is Added - never Rejected, also when max_samples_per_instance == depth; if its instance already held depth
    /// samples, exactly the OLDEST received one of that instance (the first in reception order) is gone and every other
    /// stored sample is still there in its place; otherwise nothing is removed; the new sample is last; afterwards no
    /// instance holds more than depth.
    /// @props C18
    /// @kind bounded
    /// @tier quick
    /// @timeout 1500
    /// @bounds 2 stored samples, 2 instance handles, depth 1..=2
    /// @fn DataReaderEntity::add_reader_change
    #[cfg_attr(kani, kani::proof)]
    #[cfg_attr(kani, kani::stub(alloc::fmt::format, verif_support::fmt_format_stub))]
    fn c18_keep_last_replaces_oldest_never_rejects() {
        let depth: u8 = kani::any();
        kani::assume(depth == 1 || depth == 2);
        let per_inst: u8 = kani::any();   // 0 = unlimited
        kani::assume(per_inst == 0 || per_inst >= depth);
        kani::assume(per_inst <= 3);
        let limits = ResourceLimitsQosPolicy {
            max_samples: if per_inst == 0 { Length::Unlimited } else { Length::Limited(2 * per_inst as i32 + 1) },
            max_instances: Length::Unlimited,
            max_samples_per_instance: if per_inst == 0 { Length::Unlimited } else { Length::Limited(per_inst as i32) },
        };
        let mut r = mk_reader(HistoryQosPolicyKind::KeepLast(depth as u32), DestinationOrderQosPolicyKind::ByReceptionTimestamp, limits);
        let (_, h0) = any_ih();
        let (_, h1) = any_ih();
        kani::assume(!(depth == 1 && h0 == h1));
        // source timestamps are arbitrary and unrelated to reception order
        r.sample_list.push(stored(10, h0, any_ts(), ChangeKind::Alive));
        r.sample_list.push(stored(11, h1, any_ts(), ChangeKind::Alive));
        let (_, hn) = any_ih();
        let held = (if h0 == hn { 1 } else { 0 }) + (if h1 == hn { 1 } else { 0 });
        let res = r.add_reader_change(Guid::new([7; 12], crate::transport::types::EntityId::new([7, 7, 7], 7)), payload(12),
            ChangeKind::Alive, *hn.as_ref(), Some(any_ts()), Time::new(1000, 0));
        assert!(outcome(&res) != 2, "C18: KEEP_LAST never rejects a sample for depth (also when max_samples_per_instance == depth)");
        assert!(outcome(&res) == 0, "C18: the sample is added");
        let l = &r.sample_list;
        if held == depth {
            assert!(l.len() == 2, "C18: a full instance keeps depth samples: one replaced");
            if h0 == hn {
                // oldest of that instance is the first stored one
                assert!(tag_of(&l[0]) == 11 && tag_of(&l[1]) == 12, "C18: the oldest sample of the instance is the one replaced, the others stay");
            } else {
                assert!(tag_of(&l[0]) == 10 && tag_of(&l[1]) == 12, "C18: the oldest sample of the instance is the one replaced, the others stay");
            }
        } else {
            assert!(l.len() == 3 && tag_of(&l[0]) == 10 && tag_of(&l[1]) == 11 && tag_of(&l[2]) == 12,
                "C18: below depth nothing is removed and the new sample is the most recent");
        }
        // invariant re-established: no instance holds more than depth ALIVE samples
        let mut c1 = 0;
        let mut c2 = 0;
        let mut k = 0;
        while k < l.len() {
            if l[k].instance_handle == ih(1) { c1 += 1; } else { c2 += 1; }
            k += 1;
        }
        assert!(c1 <= depth && c2 <= depth, "C18: at most depth samples per instance");
        kani::cover!(held == depth && per_inst == depth);
        kani::cover!(held == 2 && depth == 2);
        kani::cover!(held < depth);
        core::mem::forget(r);
        core::mem::forget(res);
    }

    fn any_limit(max: u8) -> (u8, Length) {
        let v: u8 = kani::any();   // 0 = unlimited
        kani::assume(v <= max);
        (v, if v == 0 { Length::Unlimited } else { Length::Limited(v as i32) })
    }

    /// C19 inductive step (reader side).  KEEP_ALL reader, resource limits arbitrary (max_samples in {unlimited,1..3},
    /// max_instances in {unlimited,1,2}, max_samples_per_instance in {unlimited,1,2}), two stored ALIVE samples with arbitrary
    /// instance handles that respect the limits, an arbitrary incoming ALIVE sample.  Then: the sample is Added iff storing
    /// it exceeds none of the three limits; otherwise the result is Rejected(handle of the incoming sample, reason) where
    /// the reason names a limit that really would be exceeded (samples / instances / samples per instance), and the stored
    /// samples are exactly what they were.  After an Added the three limits still hold (invariant re-established).
    /// @props C19
    /// @kind bounded
    /// @tier quick
    /// @timeout 1500
    /// @bounds 2 stored samples, 2 instance handles, limits up to 3
    /// @fn DataReaderEntity::add_reader_change
    #[cfg_attr(kani, kani::proof)]
    #[cfg_attr(kani, kani::stub(alloc::fmt::format, verif_support::fmt_format_stub))]
    fn c19_reader_limits_enforced_and_reported() {
        let (ms, max_samples) = any_limit(3);
        let (mi, max_instances) = any_limit(2);
        let (mp, max_samples_per_instance) = any_limit(2);
        let limits = ResourceLimitsQosPolicy { max_samples, max_instances, max_samples_per_instance };
        let mut r = mk_reader(HistoryQosPolicyKind::KeepAll, DestinationOrderQosPolicyKind::ByReceptionTimestamp, limits);
        let (b0, h0) = any_ih();
        let (b1, h1) = any_ih();
        // the pre-state respects the limits
        let n_inst_before: u8 = if b0 == b1 { 1 } else { 2 };
        kani::assume(ms == 0 || 2 <= ms);
        kani::assume(mi == 0 || n_inst_before <= mi);
        kani::assume(mp == 0 || (if b0 == b1 { 2 } else { 1 }) <= mp);
        r.sample_list.push(stored(10, h0, any_ts(), ChangeKind::Alive));
        r.sample_list.push(stored(11, h1, any_ts(), ChangeKind::Alive));
        let (bn, hn) = any_ih();
        let res = r.add_reader_change(Guid::new([7; 12], crate::transport::types::EntityId::new([7, 7, 7], 7)), payload(12),
            ChangeKind::Alive, *hn.as_ref(), Some(any_ts()), Time::new(1000, 0));
        // what storing the sample would lead to
        let total_after: u8 = 3;
        let inst_after: u8 = if b0 == b1 && b0 == bn { 1 } else { 2 };
        let per_inst_after: u8 = 1 + (if b0 == bn { 1 } else { 0 }) + (if b1 == bn { 1 } else { 0 });
        let exceeds_samples = ms != 0 && total_after > ms;
        let exceeds_instances = mi != 0 && inst_after > mi;
        let exceeds_per_instance = mp != 0 && per_inst_after > mp;
        let l = &r.sample_list;
        match &res {
            Ok(AddChangeResult::Added) => {
                assert!(!exceeds_samples && !exceeds_instances && !exceeds_per_instance,
                    "C19: a sample that would exceed max_samples / max_instances / max_samples_per_instance is never stored");
                assert!(l.len() == 3 && tag_of(&l[2]) == 12);
            }
            Ok(AddChangeResult::Rejected(h, reason)) => {
                assert!(*h == hn, "C19: the rejection names the instance of the rejected sample");
                let ok = match reason {
                    SampleRejectedStatusKind::RejectedBySamplesLimit => exceeds_samples,
                    SampleRejectedStatusKind::RejectedByInstancesLimit => exceeds_instances,
                    SampleRejectedStatusKind::RejectedBySamplesPerInstanceLimit => exceeds_per_instance,
                    _ => false,
                };
                assert!(ok, "C19: the reported reason is a limit that storing the sample would really exceed");
                assert!(l.len() == 2 && tag_of(&l[0]) == 10 && tag_of(&l[1]) == 11, "C19: a rejected sample stores nothing and removes nothing");
            }
            _ => {
                assert!(false, "C19: with no filter and shared ownership the outcome is Added or Rejected");
            }
        }
        if exceeds_samples || exceeds_instances || exceeds_per_instance {
            assert!(outcome(&res) == 2, "C19: exceeding a limit is reported as a rejection");
        }
        kani::cover!(outcome(&res) == 0);
        kani::cover!(exceeds_samples && outcome(&res) == 2);
        kani::cover!(exceeds_instances && !exceeds_samples);
        kani::cover!(exceeds_per_instance && !exceeds_samples && !exceeds_instances);
        core::mem::forget(r);
        core::mem::forget(res);
    }

    /// C19 inductive step (reader side), KEEP_LAST with NOT_ALIVE samples in the history.  KEEP_LAST(depth), depth 1..=2,
    /// max_samples_per_instance in {unlimited, depth..=2} and max_samples in {unlimited, 2..=3}; two stored samples with
    /// arbitrary instance handles and arbitrary kinds (ALIVE or NOT_ALIVE_DISPOSED) that respect depth and the limits; an
    /// arbitrary incoming ALIVE sample.  Afterwards, whatever the outcome: no instance holds more samples (of any kind) than
    /// max_samples_per_instance and no more ALIVE samples than depth, and the ALIVE total does not exceed max_samples; a
    /// Rejected outcome leaves the history untouched.  (The KEEP_LAST exemption from the sample limits may only apply when
    /// a sample is actually replaced.)
    /// @props C19 C18
    /// @kind bounded
    /// @tier quick
    /// @timeout 1500
    /// @bounds 2 stored samples, 2 instance handles, kinds ALIVE / NOT_ALIVE_DISPOSED, depth 1..=2
    /// @fn DataReaderEntity::add_reader_change
    #[cfg_attr(kani, kani::proof)]
    #[cfg_attr(kani, kani::stub(alloc::fmt::format, verif_support::fmt_format_stub))]
    fn c19_reader_limits_hold_with_keep_last_and_not_alive_samples() {
        let depth: u8 = kani::any();
        kani::assume(depth == 1 || depth == 2);
        let (mp, max_samples_per_instance) = any_limit(2);
        kani::assume(mp == 0 || mp >= depth);
        let (ms, max_samples) = any_limit(3);
        kani::assume(ms == 0 || ms >= 2);
        let limits = ResourceLimitsQosPolicy { max_samples, max_instances: Length::Unlimited, max_samples_per_instance };
        let mut r = mk_reader(HistoryQosPolicyKind::KeepLast(depth as u32), DestinationOrderQosPolicyKind::ByReceptionTimestamp, limits);
        let (b0, h0) = any_ih();
        let (b1, h1) = any_ih();
        let a0: bool = kani::any();
        let a1: bool = kani::any();
        let k0 = if a0 { ChangeKind::Alive } else { ChangeKind::NotAliveDisposed };
        let k1 = if a1 { ChangeKind::Alive } else { ChangeKind::NotAliveDisposed };
        // pre-state respects depth (ALIVE per instance) and the limits
        let alive_same = (if a0 { 1 } else { 0 }) + (if a1 { 1 } else { 0 });
        kani::assume(!(b0 == b1 && alive_same > depth));
        kani::assume(mp == 0 || !(b0 == b1 && 2 > mp));
        kani::assume(ms == 0 || alive_same <= ms);
        r.sample_list.push(stored(10, h0, any_ts(), k0));
        r.sample_list.push(stored(11, h1, any_ts(), k1));
        let (bn, hn) = any_ih();
        let res = r.add_reader_change(Guid::new([7; 12], crate::transport::types::EntityId::new([7, 7, 7], 7)), payload(12),
            ChangeKind::Alive, *hn.as_ref(), Some(any_ts()), Time::new(1000, 0));
        let l = &r.sample_list;
        let mut per1 = 0u8; let mut per2 = 0u8; let mut al1 = 0u8; let mut al2 = 0u8;
        let mut k = 0;
        while k < l.len() {
            let alive = l[k].kind == ChangeKind::Alive;
            if l[k].instance_handle == ih(1) { per1 += 1; if alive { al1 += 1; } } else { per2 += 1; if alive { al2 += 1; } }
            k += 1;
        }
        assert!(mp == 0 || (per1 <= mp && per2 <= mp), "C19: never more samples per instance than max_samples_per_instance");
        assert!(al1 <= depth && al2 <= depth, "C18: never more ALIVE samples per instance than the KEEP_LAST depth");
        assert!(ms == 0 || al1 + al2 <= ms, "C19: never more ALIVE samples than max_samples");
        if outcome(&res) == 2 {
            assert!(l.len() == 2 && tag_of(&l[0]) == 10 && tag_of(&l[1]) == 11, "C19: a rejected sample stores nothing and removes nothing");
        }
        kani::cover!(outcome(&res) == 2);
        kani::cover!(outcome(&res) == 0 && l.len() == 2);
        kani::cover!(outcome(&res) == 0 && l.len() == 3);
        kani::cover!(!a0 && b0 == bn && b1 == bn && a1 && depth == 2 && mp == 2);
        core::mem::forget(r);
        core::mem::forget(res);
    }

    // ---------------------------------------------------------------- C20 / C23: read, take
    fn any_sample_state() -> SampleStateKind { if kani::any() { SampleStateKind::Read } else { SampleStateKind::NotRead } }
    fn any_view_state() -> ViewStateKind { if kani::any() { ViewStateKind::New } else { ViewStateKind::NotNew } }
    fn any_instance_state() -> InstanceStateKind {
        let c: u8 = kani::any();
        match c % 3 { 0 => InstanceStateKind::Alive, 1 => InstanceStateKind::NotAliveDisposed, _ => InstanceStateKind::NotAliveNoWriters }
    }

    /// C20, one stored sample, read (take: twin obligation).  A reader holding ONE sample (arbitrary sample state, arbitrary generation counters stamped at
    /// reception) of an instance in an ARBITRARY state (view state, instance state, generation counters >= the sample's);
    /// read with EVERY sample/view/instance-state mask (two arbitrary members each), max_samples in
    /// {0, 1, 5}, and no instance / the instance / an unknown instance as the requested handle.  Then: unknown handle =>
    /// BadParameter; otherwise the sample is returned iff its sample state, its instance's view state and instance state are
    /// all in the masks and max_samples > 0, else NoData and nothing changes; the returned SampleInfo carries the states
    /// as they were BEFORE the call, the sample's own generation counters, ranks per the DDS definitions (sample_rank 0,
    /// generation_rank 0, absolute_generation_rank = instance generation - sample generation), handle, valid_data and the
    /// payload bytes; read keeps the sample and marks it READ, take removes it; the instance becomes NOT_NEW.
    /// @props C20
    /// @kind bounded
    /// @tier quick
    /// @timeout 1500
    /// @bounds 1 stored sample, 1 known instance, masks of 2 members, generation counters 0..=3
    /// @fn DataReaderEntity::read, DataReaderEntity::take, DataReaderEntity::create_sample_collection
    #[cfg_attr(kani, kani::proof)]
    #[cfg_attr(kani, kani::stub(alloc::fmt::format, verif_support::fmt_format_stub))]
    fn c20_read_single_sample_masks_and_info() {
        check_c20(false);
    }

    /// C20, one stored sample, take: same obligation as for read; the returned sample is removed.
    /// @props C20
    /// @kind bounded
    /// @tier thorough
    /// @timeout 2400
    /// @bounds 1 stored sample, 1 known instance, masks of 2 members, generation counters 0..=3
    /// @fn DataReaderEntity::take, DataReaderEntity::create_sample_collection
    #[cfg_attr(kani, kani::proof)]
    #[cfg_attr(kani, kani::stub(alloc::fmt::format, verif_support::fmt_format_stub))]
    fn c20_take_single_sample_masks_and_info() {
        check_c20(true);
    }

    fn check_c20(take: bool) {
        let mut qos = DataReaderQos::const_default();
        qos.history = HistoryQosPolicy { kind: HistoryQosPolicyKind::KeepAll };
        let mut r: DataReaderEntity<()> = DataReaderEntity::new(ih(99), qos, String::new(), ());
        r.enabled = true;
        let vs = any_view_state();
        let is = any_instance_state();
        let sd: u8 = kani::any();
        let sn: u8 = kani::any();
        let id: u8 = kani::any();
        let inw: u8 = kani::any();
        kani::assume(sd <= id && sn <= inw && id <= 3 && inw <= 3);
        r.instances.push(InstanceState {
            handle: ih(1), view_state: vs, instance_state: is,
            most_recent_disposed_generation_count: id as i32, most_recent_no_writers_generation_count: inw as i32,
            last_received_time_stamp: Time::new(5, 0),
        });
        let ss = any_sample_state();
        let mut s = stored(10, ih(1), Time::new(3, 0), ChangeKind::Alive);
        s.sample_state = ss;
        s.disposed_generation_count = sd as i32;
        s.no_writers_generation_count = sn as i32;
        r.sample_list.push(s);
        let m_ss = [any_sample_state(), any_sample_state()];
        let m_vs = [any_view_state(), any_view_state()];
        let m_is = [any_instance_state(), any_instance_state()];
        let ms: u8 = kani::any();
        kani::assume(ms <= 2);
        let max_samples: i32 = if ms == 0 { 0 } else if ms == 1 { 1 } else { 5 };
        let hsel: u8 = kani::any();
        kani::assume(hsel <= 2);
        let handle = if hsel == 0 { None } else if hsel == 1 { Some(ih(1)) } else { Some(ih(2)) };
        let res = if take { r.take(max_samples, &m_ss, &m_vs, &m_is, &handle) } else { r.read(max_samples, &m_ss, &m_vs, &m_is, &handle) };
        let matches = (m_ss[0] == ss || m_ss[1] == ss) && (m_vs[0] == vs || m_vs[1] == vs) && (m_is[0] == is || m_is[1] == is) && max_samples > 0;
        if hsel == 2 {
            assert!(matches!(&res, Err(DdsError::BadParameter)), "C20: an unknown instance handle is BadParameter");
        } else if !matches {
            assert!(matches!(&res, Err(DdsError::NoData)), "C20: NoData exactly when nothing matches the masks");
            assert!(r.sample_list.len() == 1 && r.sample_list[0].sample_state == ss && r.instances[0].view_state == vs, "C20: nothing changes when nothing is returned");
        } else {
            match &res {
                Ok(l) => {
                    assert!(l.len() == 1, "C20: the matching sample is returned");
                    let (data, info) = &l[0];
                    assert!(data.len() == 1 && data[0] == 10, "C20: with its payload");
                    assert!(info.sample_state == ss && info.view_state == vs && info.instance_state == is, "C20: SampleInfo carries the states as they were before the call");
                    assert!(info.disposed_generation_count == sd as i32 && info.no_writers_generation_count == sn as i32, "C20: generation counts are the ones stamped on the sample at reception");
                    assert!(info.sample_rank == 0 && info.generation_rank == 0, "C20: a single returned sample has sample_rank 0 and generation_rank 0");
                    assert!(info.absolute_generation_rank == (id as i32 + inw as i32) - (sd as i32 + sn as i32),
                        "C20: absolute_generation_rank = (instance disposed+no_writers generation) - (the sample's), DDS 1.4 2.2.2.5.1.9");
                    assert!(info.instance_handle == ih(1) && info.valid_data && info.source_timestamp == Some(Time::new(3, 0)));
                }
                Err(_) => assert!(false, "C20: a matching sample is returned"),
            }
            if take {
                assert!(r.sample_list.len() == 0, "C20: take removes the returned sample");
            } else {
                assert!(r.sample_list.len() == 1 && r.sample_list[0].sample_state == SampleStateKind::Read, "C20: read keeps the sample and marks it READ");
            }
            assert!(r.instances[0].view_state == ViewStateKind::NotNew, "C20: an accessed instance is no longer NEW");
        }
        kani::cover!(hsel != 2 && matches);
        kani::cover!(hsel != 2 && !matches && max_samples > 0);
        kani::cover!(sd + sn > 0 && matches);
        core::mem::forget(r);
        core::mem::forget(res);
    }

    // ---------------------------------------------------------------- C25: time-based filter
    use crate::infrastructure::qos_policy::TimeBasedFilterQosPolicy;

    /// C25 inductive step.  A reader with TIME_BASED_FILTER minimum_separation = sep (1..=3 s), KEEP_ALL, no limits, holding
    /// ONE sample of the instance with source timestamp t0; an incoming ALIVE sample of the SAME instance with an arbitrary
    /// source timestamp t (earlier, equal or later than t0 - i.e. in-order or out-of-order arrival).  Then: the sample is
    /// stored (Added) iff |t - t0| >= sep; afterwards the stored samples of the instance are pairwise at least sep apart
    /// (the reader never presents two samples closer than minimum_separation, whatever the arrival order), and a sample at
    /// least sep away from the stored one is not filtered.  A sample of ANOTHER instance is never filtered.
    /// @props C25
    /// @kind bounded
    /// @tier quick
    /// @timeout 1500
    /// @bounds 1 stored sample, 2 instance handles, timestamps whole seconds 0..=255, separation 1..=3 s
    /// @fn DataReaderEntity::add_reader_change
    #[cfg_attr(kani, kani::proof)]
    #[cfg_attr(kani, kani::stub(alloc::fmt::format, verif_support::fmt_format_stub))]
    fn c25_time_based_filter_any_arrival_order() {
        let sep: u8 = kani::any();
        kani::assume(sep >= 1 && sep <= 3);
        let mut r = mk_reader(HistoryQosPolicyKind::KeepAll, DestinationOrderQosPolicyKind::ByReceptionTimestamp, unlimited());
        r.qos.time_based_filter = TimeBasedFilterQosPolicy {
            minimum_separation: DurationKind::Finite(crate::infrastructure::time::Duration::new(sep as i32, 0)),
        };
        let s0: u8 = kani::any();
        let s1: u8 = kani::any();
        r.sample_list.push(stored(10, ih(1), Time::new(s0 as i32, 0), ChangeKind::Alive));
        let (bn, hn) = any_ih();
        let res = r.add_reader_change(Guid::new([7; 12], crate::transport::types::EntityId::new([7, 7, 7], 7)), payload(12),
            ChangeKind::Alive, *hn.as_ref(), Some(Time::new(s1 as i32, 0)), Time::new(1000, 0));
        let dist: u8 = if s1 >= s0 { s1 - s0 } else { s0 - s1 };
        let code = outcome(&res);
        if bn == 2 {
            assert!(code == 0, "C25: the filter is per instance - a sample of another instance is never filtered");
        } else if dist >= sep {
            assert!(code == 0, "C25: a sample at least minimum_separation away from the stored ones is not filtered");
        } else {
            assert!(code == 1, "C25: a sample closer than minimum_separation to a stored sample of its instance is filtered, whatever the arrival order");
            assert!(r.sample_list.len() == 1, "C25: a filtered sample is not stored");
        }
        kani::cover!(bn == 1 && s1 < s0 && dist < sep);
        kani::cover!(bn == 1 && s1 > s0 && dist < sep);
        kani::cover!(bn == 1 && dist >= sep && code == 0);
        core::mem::forget(r);
        core::mem::forget(res);
    }

    /// C25 inductive step with two stored samples.  Same reader; the instance holds two samples at source timestamps t0 and
    /// t1 that are at least sep apart (the invariant), stored in an arbitrary reception order; an incoming sample of that
    /// instance at an arbitrary timestamp t (before, between, after, equal): it is stored iff it is at least sep away from
    /// BOTH stored samples, so the invariant "pairwise at least minimum_separation apart" is re-established by every reception.
    /// @props C25
    /// @kind bounded
    /// @tier quick
    /// @timeout 1500
    /// @bounds 2 stored samples of one instance, timestamps whole seconds 0..=255, separation 1..=3 s
    /// @fn DataReaderEntity::add_reader_change
    #[cfg_attr(kani, kani::proof)]
    #[cfg_attr(kani, kani::stub(alloc::fmt::format, verif_support::fmt_format_stub))]
    fn c25_time_based_filter_two_stored_samples() {
        let sep: u8 = kani::any();
        kani::assume(sep >= 1 && sep <= 3);
        let mut r = mk_reader(HistoryQosPolicyKind::KeepAll, DestinationOrderQosPolicyKind::ByReceptionTimestamp, unlimited());
        r.qos.time_based_filter = TimeBasedFilterQosPolicy {
            minimum_separation: DurationKind::Finite(crate::infrastructure::time::Duration::new(sep as i32, 0)),
        };
        let s0: u8 = kani::any();
        let s1: u8 = kani::any();
        let d01: u8 = if s1 >= s0 { s1 - s0 } else { s0 - s1 };
        kani::assume(d01 >= sep); // invariant on the pre-state; reception order (s0 first) is arbitrary w.r.t. source time
        r.sample_list.push(stored(10, ih(1), Time::new(s0 as i32, 0), ChangeKind::Alive));
        r.sample_list.push(stored(11, ih(1), Time::new(s1 as i32, 0), ChangeKind::Alive));
        let t: u8 = kani::any();
        let res = r.add_reader_change(Guid::new([7; 12], crate::transport::types::EntityId::new([7, 7, 7], 7)), payload(12),
            ChangeKind::Alive, *ih(1).as_ref(), Some(Time::new(t as i32, 0)), Time::new(1000, 0));
        let d0: u8 = if t >= s0 { t - s0 } else { s0 - t };
        let d1: u8 = if t >= s1 { t - s1 } else { s1 - t };
        let code = outcome(&res);
        if d0 >= sep && d1 >= sep {
            assert!(code == 0 && r.sample_list.len() == 3, "C25: a sample at least minimum_separation away from every stored sample of its instance is not filtered");
        } else {
            assert!(code == 1 && r.sample_list.len() == 2, "C25: a sample closer than minimum_separation to ANY stored sample of its instance is filtered");
        }
        kani::cover!(t > s0 && t < s1 && code == 0);
        kani::cover!(t > s0 && t < s1 && code == 1 && d0 >= sep);
        kani::cover!(t < s0 && t < s1);
        core::mem::forget(r);
        core::mem::forget(res);
    }

    // ---------------------------------------------------------------- C22: embedding of the instance state machine
    /// C22 embedding.  add_reader_change applies the life-cycle transition of the incoming change to ITS instance exactly
    /// once and stamps the stored sample with the generation counters AFTER the transition.  Reader knowing instances 1
    /// and 2 in arbitrary states (instance/view state, counters 0..=3), no stored sample; an incoming change of arbitrary
    /// kind (ALIVE, dispose, unregister, dispose+unregister) for instance 1 or 2: the addressed instance ends in the state
    /// InstanceState::update_state (the function the C22 state-machine obligations decide) gives when applied ONCE to its
    /// old state - in particular a rebirth advances the matching generation counter by exactly one although the code calls
    /// update_state twice -, the other instance is untouched, and the stored sample carries the new counters.
    /// @props C22
    /// @kind bounded
    /// @tier quick
    /// @timeout 1500
    /// @bounds 2 known instances, empty history, counters 0..=3
    /// @fn DataReaderEntity::add_reader_change, InstanceState::update_state
    #[cfg_attr(kani, kani::proof)]
    #[cfg_attr(kani, kani::stub(alloc::fmt::format, verif_support::fmt_format_stub))]
    fn c22_add_reader_change_applies_transition_once_and_stamps_sample() {
        let mut qos = DataReaderQos::const_default();
        qos.history = HistoryQosPolicy { kind: HistoryQosPolicyKind::KeepAll };
        let mut r: DataReaderEntity<()> = DataReaderEntity::new(ih(99), qos, String::new(), ());
        r.enabled = true;
        let mut k = 1u8;
        while k <= 2 {
            let d: u8 = kani::any();
            let n: u8 = kani::any();
            kani::assume(d <= 3 && n <= 3);
            r.instances.push(InstanceState {
                handle: ih(k), view_state: any_view_state(), instance_state: any_instance_state(),
                most_recent_disposed_generation_count: d as i32, most_recent_no_writers_generation_count: n as i32,
                last_received_time_stamp: Time::new(5, 0),
            });
            k += 1;
        }
        let (bn, hn) = any_ih();
        let kc: u8 = kani::any();
        let kind = match kc & 3 {
            0 => ChangeKind::Alive,
            1 => ChangeKind::NotAliveDisposed,
            2 => ChangeKind::NotAliveUnregistered,
            _ => ChangeKind::NotAliveDisposedUnregistered,
        };
        let idx = (bn - 1) as usize;
        let other = 1 - idx;
        // expected: the state machine applied once to a copy of the old state
        let mut expect = InstanceState {
            handle: hn, view_state: r.instances[idx].view_state, instance_state: r.instances[idx].instance_state,
            most_recent_disposed_generation_count: r.instances[idx].most_recent_disposed_generation_count,
            most_recent_no_writers_generation_count: r.instances[idx].most_recent_no_writers_generation_count,
            last_received_time_stamp: Time::new(5, 0),
        };
        expect.update_state(kind, Some(Time::new(1000, 0)));
        let (o_is, o_vs, o_d, o_n) = (r.instances[other].instance_state, r.instances[other].view_state,
            r.instances[other].most_recent_disposed_generation_count, r.instances[other].most_recent_no_writers_generation_count);
        let res = r.add_reader_change(Guid::new([7; 12], crate::transport::types::EntityId::new([7, 7, 7], 7)), payload(12),
            kind, *hn.as_ref(), Some(Time::new(3, 0)), Time::new(1000, 0));
        assert!(outcome(&res) == 0, "with no limits and no filter the change is stored");
        let i = &r.instances[idx];
        assert!(i.instance_state == expect.instance_state && i.view_state == expect.view_state
            && i.most_recent_disposed_generation_count == expect.most_recent_disposed_generation_count
            && i.most_recent_no_writers_generation_count == expect.most_recent_no_writers_generation_count,
            "C22: the instance of the change makes exactly ONE life-cycle transition");
        let o = &r.instances[other];
        assert!(o.instance_state == o_is && o.view_state == o_vs && o.most_recent_disposed_generation_count == o_d
            && o.most_recent_no_writers_generation_count == o_n, "C22: other instances are untouched");
        assert!(r.sample_list.len() == 1 && r.sample_list[0].instance_handle == hn
            && r.sample_list[0].disposed_generation_count == expect.most_recent_disposed_generation_count
            && r.sample_list[0].no_writers_generation_count == expect.most_recent_no_writers_generation_count,
            "C22: the stored sample carries the generation counters after the transition");
        kani::cover!(kc & 3 == 0 && expect.most_recent_disposed_generation_count > r.instances[other].most_recent_disposed_generation_count);
        kani::cover!(kc & 3 == 1);
        core::mem::forget(r);
        core::mem::forget(res);
    }
