    // @unit name=time_dds file=dds/src/dcps/infrastructure/time.rs
    // Child module of dds/src/dcps/infrastructure/time.rs (C14, C31): Hoare-triple obligations over the real
    // private functions.  Inputs are drawn only through kani::any::<integer>() so the same text replays natively.
    // Every harness here is loop-free over the full value domain => complete proof (kind proof).

    fn any_duration_normalized() -> Duration {
        let sec: i32 = kani::any();
        let nanosec: u32 = kani::any();
        kani::assume(nanosec < 1_000_000_000);
        Duration { sec, nanosec }
    }

    /// (rs, rn) is the exact mathematical sum of the normalized values (as, an) and (bs, bn):
    /// rs*10^9 + rn == as*10^9 + an + bs*10^9 + bn with all nanosecond fields below 10^9 — written without
    /// multiplication (carry form) so that the SAT back end decides it in milliseconds.  The equivalence of the
    /// carry form with the multiplied form is the Verus lemma `lemma_carry_form_is_exact_sum` (unit time_v).
    fn is_exact_sum(a_s: i32, a_n: u32, b_s: i32, b_n: u32, r_s: i32, r_n: u32) -> bool {
        let n = a_n as u64 + b_n as u64;
        let carry: i64 = if n >= 1_000_000_000 { 1 } else { 0 };
        r_n < 1_000_000_000
            && r_n as u64 == n - (carry as u64) * 1_000_000_000
            && r_s as i64 == a_s as i64 + b_s as i64 + carry
    }

    // Function contract on the real encoder (spliced immediately before its `fn` line in the scratch copy):
    //   requires nanosec < 10^9;  ensures fraction_to_nanosec(result) == nanosec
    // It is *proved* by Verus on the verbatim-extracted text (unit time_v, obligation nanosec_to_fraction_dds: non-linear
    // arithmetic, unbounded); CBMC cannot finish the UNSAT proof of a 64-bit mul/div identity, so the Kani
    // proof_for_contract harness below is only the counterexample finder (role finder, 90 s), and the conversion
    // obligations further down reuse the contract through stub_verified (modular: caller sees the contract only).
    // @attr {"anchor": "^fn nanosec_to_fraction\\(", "lines": ["#[cfg_attr(kani, kani::requires(nanosec < 1_000_000_000))]", "#[cfg_attr(kani, kani::ensures(|f: &u32| fraction_to_nanosec(*f) == nanosec))]"]}
    // @assume contract of time.rs::nanosec_to_fraction is used by stub_verified in the conversion obligations; its proof is the Verus obligation nanosec_to_fraction_dds (same text), not the Kani finder harness

    /// C14: nanoseconds survive the DDS -> RTPS fraction -> DDS conversion for every valid value
    /// (Kani twin of the Verus obligation nanosec_to_fraction_dds; gives the concrete counterexample when it fails).
    /// @props C14
    /// @kind proof
    /// @tier quick
    /// @role finder
    /// @timeout 40
    /// @fn nanosec_to_fraction, fraction_to_nanosec
    #[cfg_attr(kani, kani::proof_for_contract(nanosec_to_fraction))]
    fn c14_nanosec_fraction_roundtrip() {
        let n: u32 = kani::any();
        kani::assume(n < 1_000_000_000);
        let f = nanosec_to_fraction(n);
        let back = fraction_to_nanosec(f);
        assert!(back == n, "C14: nanosec -> fraction -> nanosec is the identity");
    }

    /// C14: every fraction decodes to a normalized nanosecond count.
    /// @props C14
    /// @kind proof
    /// @tier quick
    /// @fn fraction_to_nanosec
    #[cfg_attr(kani, kani::proof)]
    fn c14_fraction_to_nanosec_normalized() {
        let f: u32 = kani::any();
        assert!(fraction_to_nanosec(f) < 1_000_000_000);
        kani::cover!(f == u32::MAX);
    }

    /// C14: DDS Duration -> RTPS Duration -> DDS Duration is the identity on normalized durations.
    /// @props C14
    /// @kind proof
    /// @tier quick
    /// @fn <behavior_types::Duration as From<Duration>>::from, <Duration as From<behavior_types::Duration>>::from
    #[cfg_attr(kani, kani::proof)]
    #[cfg_attr(kani, kani::stub_verified(nanosec_to_fraction))]
    fn c14_duration_rtps_roundtrip() {
        let d = any_duration_normalized();
        let r = crate::rtps::behavior_types::Duration::from(d);
        let back = Duration::from(r);
        assert!(back.sec == d.sec && back.nanosec == d.nanosec);
        kani::cover!(d.sec < 0);
    }

    /// C14: DDS time value (as Duration) -> RTPS wire Time -> DDS is the identity for sec >= 0.
    /// @props C14
    /// @kind proof
    /// @tier quick
    /// @fn <rtps_messages::types::Time as From<Duration>>::from, <Duration as From<rtps_messages::types::Time>>::from
    #[cfg_attr(kani, kani::proof)]
    #[cfg_attr(kani, kani::stub_verified(nanosec_to_fraction))]
    fn c14_time_wire_roundtrip() {
        let d = any_duration_normalized();
        kani::assume(d.sec >= 0);
        let t = crate::rtps_messages::types::Time::from(d);
        let back = Duration::from(t);
        assert!(back.sec == d.sec && back.nanosec == d.nanosec);
        kani::cover!(d.nanosec == 1);
    }

    /// C14: constructors normalize.
    /// @props C14
    /// @kind proof
    /// @tier quick
    /// @fn Duration::new, Time::new
    #[cfg_attr(kani, kani::proof)]
    fn c14_new_normalized() {
        let sec: i32 = kani::any();
        let nanosec: u32 = kani::any();
        let d = Duration::new(sec, nanosec);
        assert!(d.nanosec < 1_000_000_000);
        let t = Time::new(sec, nanosec);
        assert!(t.nanosec < 1_000_000_000);
        // exact when the seconds do not saturate: sec' = sec + nanosec div 10^9, nanosec' = nanosec mod 10^9
        let q: i64 = if nanosec >= 4_000_000_000 { 4 } else if nanosec >= 3_000_000_000 { 3 } else if nanosec >= 2_000_000_000 { 2 } else if nanosec >= 1_000_000_000 { 1 } else { 0 };
        if sec as i64 + q <= i32::MAX as i64 {
            assert!(d.sec as i64 == sec as i64 + q && d.nanosec as i64 == nanosec as i64 - q * 1_000_000_000);
            assert!(t.sec as i64 == sec as i64 + q && t.nanosec as i64 == nanosec as i64 - q * 1_000_000_000);
        }
        kani::cover!(nanosec >= 1_000_000_000);
    }

    // Saturation class (known finding KF-C14-SAT): one of the two `saturating_add/sub` steps clips, after which the
    // carry/borrow step moves the result *away* from the bound; exactness and monotonicity are lost there.
    fn no_sat_add(a_sec: i32, b_sec: i32) -> bool {
        let s = a_sec as i64 + b_sec as i64;
        s >= i32::MIN as i64 && s <= i32::MAX as i64 - 1
    }
    fn no_sat_sub(a_sec: i32, b_sec: i32) -> bool {
        let s = a_sec as i64 - b_sec as i64;
        s >= i32::MIN as i64 + 1 && s <= i32::MAX as i64
    }

    /// Duration + Duration is always normalized; it equals the exact mathematical sum whenever the seconds do not
    /// saturate (a.sec + b.sec + carry within i32).
    /// @props C14
    /// @kind proof
    /// @tier quick
    /// @fn <Duration as Add>::add
    #[cfg_attr(kani, kani::proof)]
    fn c14_duration_add() {
        let a = any_duration_normalized();
        let b = any_duration_normalized();
        let s = a + b;
        assert!(s.nanosec < 1_000_000_000, "C14: sum is normalized");
        if no_sat_add(a.sec, b.sec) {
            assert!(is_exact_sum(a.sec, a.nanosec, b.sec, b.nanosec, s.sec, s.nanosec), "C14: exact sum when the seconds do not saturate");
        }
        kani::cover!(!no_sat_add(a.sec, b.sec));
        kani::cover!(a.nanosec + b.nanosec >= 1_000_000_000);
    }

    /// Duration + Duration is monotone in both arguments (outside the saturation class).
    /// @props C14
    /// @kind proof
    /// @tier quick
    /// @fn <Duration as Add>::add
    #[cfg_attr(kani, kani::proof)]
    fn c14_duration_add_monotone() {
        let a = any_duration_normalized();
        let a2 = any_duration_normalized();
        let b = any_duration_normalized();
        kani::assume(a <= a2);
        kani::assume(no_sat_add(a.sec, b.sec) && no_sat_add(a2.sec, b.sec));
        assert!(a + b <= a2 + b, "C14: + is monotone in its left argument");
        assert!(b + a <= b + a2, "C14: + is monotone in its right argument");
        kani::cover!(a < a2);
    }

    /// Known-finding probe: monotonicity of + inside the saturation class (expected to FAIL today).
    /// @props C14
    /// @kind proof
    /// @tier quick
    /// @known KF-C14-SAT
    /// @fn <Duration as Add>::add
    #[cfg_attr(kani, kani::proof)]
    fn c14_kf_duration_add_monotone_saturating() {
        let a = any_duration_normalized();
        let a2 = any_duration_normalized();
        let b = any_duration_normalized();
        kani::assume(a <= a2);
        kani::assume(!(no_sat_add(a.sec, b.sec) && no_sat_add(a2.sec, b.sec)));
        assert!(a + b <= a2 + b, "C14: + is monotone in its left argument (saturation class)");
    }

    /// Duration - Duration is always normalized and exact whenever the seconds do not saturate; monotone there.
    /// @props C14
    /// @kind proof
    /// @tier quick
    /// @fn <Duration as Sub>::sub
    #[cfg_attr(kani, kani::proof)]
    fn c14_duration_sub() {
        let a = any_duration_normalized();
        let b = any_duration_normalized();
        let s = a - b;
        assert!(s.nanosec < 1_000_000_000, "C14: difference is normalized");
        if no_sat_sub(a.sec, b.sec) {
            // s = a - b  <=>  s + b = a
            assert!(is_exact_sum(s.sec, s.nanosec, b.sec, b.nanosec, a.sec, a.nanosec), "C14: exact difference when the seconds do not saturate");
        }
        kani::cover!(a.nanosec < b.nanosec);
        kani::cover!(!no_sat_sub(a.sec, b.sec));
    }

    /// Duration - Duration is monotone in the left and antitone in the right argument (outside saturation).
    /// @props C14
    /// @kind proof
    /// @tier quick
    /// @fn <Duration as Sub>::sub
    #[cfg_attr(kani, kani::proof)]
    fn c14_duration_sub_monotone() {
        let a = any_duration_normalized();
        let a2 = any_duration_normalized();
        let b = any_duration_normalized();
        kani::assume(a <= a2);
        kani::assume(no_sat_sub(a.sec, b.sec) && no_sat_sub(a2.sec, b.sec));
        kani::assume(no_sat_sub(b.sec, a.sec) && no_sat_sub(b.sec, a2.sec));
        assert!(a - b <= a2 - b);
        assert!(b - a >= b - a2);
    }

    /// Time + Duration normalized, exact outside saturation; Time - Time normalized, exact outside saturation;
    /// Time + Duration monotone in the time and in the duration.
    /// @props C14
    /// @kind proof
    /// @tier quick
    /// @fn <Time as Add<Duration>>::add, <Time as Sub>::sub
    #[cfg_attr(kani, kani::proof)]
    fn c14_time_add_sub() {
        let ts: i32 = kani::any();
        let tn: u32 = kani::any();
        kani::assume(tn < 1_000_000_000);
        let t = Time { sec: ts, nanosec: tn };
        let d = any_duration_normalized();
        let r = t + d;
        assert!(r.nanosec < 1_000_000_000, "C14: Time + Duration is normalized");
        if no_sat_add(ts, d.sec) {
            assert!(is_exact_sum(ts, tn, d.sec, d.nanosec, r.sec, r.nanosec), "C14: Time + Duration exact");
        }
        let us: i32 = kani::any();
        let un: u32 = kani::any();
        kani::assume(un < 1_000_000_000);
        let u = Time { sec: us, nanosec: un };
        let diff = t - u;
        assert!(diff.nanosec < 1_000_000_000, "C14: Time - Time is normalized");
        if no_sat_sub(ts, us) {
            assert!(is_exact_sum(diff.sec, diff.nanosec, us, un, ts, tn), "C14: Time - Time exact");
        }
        if t <= u && no_sat_add(ts, d.sec) && no_sat_add(us, d.sec) {
            assert!(t + d <= u + d, "C14: Time + Duration is monotone in the time");
        }
        kani::cover!(t < u);
        kani::cover!(ts < 0);
    }

    /// The derived Ord/PartialEq of Duration and Time is the lexicographic order on (sec, nanosec); on normalized
    /// values that is the mathematical order of sec*10^9+nanosec (Verus lemma `lemma_lex_is_math_order`, unit time_v).
    /// @props C14
    /// @kind proof
    /// @tier quick
    /// @fn Duration::cmp, Time::cmp (derived)
    #[cfg_attr(kani, kani::proof)]
    fn c14_ord_is_lexicographic() {
        let a = any_duration_normalized();
        let b = any_duration_normalized();
        let lex_lt = a.sec < b.sec || (a.sec == b.sec && a.nanosec < b.nanosec);
        let lex_eq = a.sec == b.sec && a.nanosec == b.nanosec;
        assert!((a < b) == lex_lt);
        assert!((a == b) == lex_eq);
        assert!((a <= b) == (lex_lt || lex_eq));
        let ta = Time { sec: a.sec, nanosec: a.nanosec };
        let tb = Time { sec: b.sec, nanosec: b.nanosec };
        assert!((ta < tb) == lex_lt);
        assert!((ta == tb) == lex_eq);
        kani::cover!(lex_lt);
    }

    /// C31: converting a DDS Duration to a sleep time never exceeds max(0, d).
    /// @props C31
    /// @kind proof
    /// @tier quick
    /// @fn <core::time::Duration as From<Duration>>::from
    #[cfg_attr(kani, kani::proof)]
    fn c31_core_duration_never_exceeds() {
        let d = any_duration_normalized();
        let c = core::time::Duration::from(d);
        // multiplication-free: compare whole seconds and sub-second nanoseconds
        if d.sec < 0 {
            assert!(c.as_secs() == 0 && c.subsec_nanos() == 0, "C31: sleep time <= max(0, duration): an overdue (negative) duration sleeps 0");
        } else {
            assert!(c.as_secs() == d.sec as u64 && c.subsec_nanos() == d.nanosec, "C31: sleep time == duration for non-negative durations");
        }
        kani::cover!(d.sec < 0);
    }
