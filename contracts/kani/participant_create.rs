    // @unit name=participant_create file=dds/src/dcps/dcps_domain_participant/participant_methods.rs unwind=3 unwindset=memcmp.0:18 loops=overflowing_pow:8,status_mask::StatusMask:15,slice_contains:8
    // Child module of participant_methods.rs (C35, C36): representation invariant of the entity lists of a REAL
    // DcpsDomainParticipant (built with DcpsDomainParticipant::new: builtin publisher/subscriber and all builtin endpoints,
    // null transport, no-op runtime), checked as an inductive step from an ARBITRARY state satisfying the invariant:
    //   I_pub:  every publisher handle in user_defined_publisher_list is  participant prefix ++ [k,0,0,WRITER_GROUP] with
    //           k < publisher_counter, and the handles are pairwise distinct            (same for subscribers / topics)
    // create_* must return Ok(h) with h different from every existing handle, or Err, and must re-establish I; it must never
    // panic (arithmetic overflow is a checked obligation).  Since the pre-state is arbitrary, this covers create/delete
    // histories of any length (delete only removes list elements, which preserves I trivially - c35_delete_* obligations).
    // Bounded in: number of entities already in the list (1 quick, 2 thorough).
    // @assume alloc::fmt::format (format!/to_string on error paths) is stubbed to return an empty String: only message texts are abstracted, never which error variant is returned
    // @assume the counters of a participant are only written by create_* (checked by a textual scan of dds/src in the harness comments; not a solver obligation)

    use crate::dds_async::domain_participant_factory::DcpsChannel;
    use crate::runtime::{Clock, Spawner, TaskHandle, Timer};
    use crate::transport::interface::{RtpsTransportParticipant, WriteMessage};
    use crate::transport::types::Locator;

    struct NullWriter;
    impl WriteMessage for NullWriter {
        fn write_message(&self, _buf: &[u8], _locators: &[Locator]) {}
    }
    #[derive(Clone)]
    struct NoClock;
    impl Clock for NoClock {
        fn now(&self) -> Time {
            Time::new(100, 0)
        }
    }
    #[derive(Clone)]
    struct NoTimer;
    impl Timer for NoTimer {
        fn delay(&mut self, _d: core::time::Duration) -> impl core::future::Future<Output = ()> + Send {
            async {}
        }
    }
    struct NoTask;
    impl TaskHandle for NoTask {
        fn join(&self) {}
    }
    #[derive(Clone)]
    struct NoSpawner;
    impl Spawner for NoSpawner {
        type TaskHandle = NoTask;
        fn spawn(&self, _f: impl core::future::Future<Output = ()> + Send + 'static) -> NoTask {
            NoTask
        }
    }
    struct NoRuntime;
    impl DdsRuntime for NoRuntime {
        type ClockHandle = NoClock;
        type TimerHandle = NoTimer;
        type SpawnerHandle = NoSpawner;
        fn timer(&self) -> NoTimer {
            NoTimer
        }
        fn clock(&self) -> NoClock {
            NoClock
        }
        fn spawner(&self) -> NoSpawner {
            NoSpawner
        }
    }

    static VERIF_CH: DcpsChannel = DcpsChannel::new();

    fn mk_participant() -> DcpsDomainParticipant {
        let p0: u8 = kani::any();
        let transport = RtpsTransportParticipant {
            message_writer: alloc::boxed::Box::new(NullWriter),
            default_unicast_locator_list: Vec::new(),
            metatraffic_unicast_locator_list: Vec::new(),
            metatraffic_multicast_locator_list: Vec::new(),
            default_multicast_locator_list: Vec::new(),
            fragment_size: 1344,
        };
        DcpsDomainParticipant::new(
            0,
            String::new(),
            [p0, 1, 2, 3, 4, 5, 6, 7, 8, 9, 10, 11],
            DomainParticipantQos::default(),
            None,
            StatusMask::default(),
            transport,
            VERIF_CH.sender(),
            core::time::Duration::new(5, 0),
        )
    }

    fn group_handle(p: &DcpsDomainParticipant, k: u8, kind: u8) -> InstanceHandle {
        let h = &p.domain_participant.instance_handle;
        InstanceHandle::new([h[0], h[1], h[2], h[3], h[4], h[5], h[6], h[7], h[8], h[9], h[10], h[11], k, 0, 0, kind])
    }

    /// invariant I_pub on the current state
    fn inv_pub(p: &DcpsDomainParticipant) -> bool {
        let l = &p.domain_participant.user_defined_publisher_list;
        let mut ok = true;
        let mut i = 0;
        while i < l.len() {
            let h = l[i].instance_handle;
            ok = ok && h == group_handle(p, h[12], USER_DEFINED_WRITER_GROUP) && h[12] < p.publisher_counter;
            let mut j = 0;
            while j < i {
                ok = ok && l[j].instance_handle != h;
                j += 1;
            }
            i += 1;
        }
        ok
    }
    fn inv_sub(p: &DcpsDomainParticipant) -> bool {
        let l = &p.domain_participant.user_defined_subscriber_list;
        let mut ok = true;
        let mut i = 0;
        while i < l.len() {
            let h = l[i].instance_handle;
            ok = ok && h == group_handle(p, h[12], USER_DEFINED_READER_GROUP) && h[12] < p.subscriber_counter;
            let mut j = 0;
            while j < i {
                ok = ok && l[j].instance_handle != h;
                j += 1;
            }
            i += 1;
        }
        ok
    }

    fn push_any_publisher(p: &mut DcpsDomainParticipant) {
        let k: u8 = kani::any();
        let h = group_handle(p, k, USER_DEFINED_WRITER_GROUP);
        p.domain_participant.user_defined_publisher_list.push(PublisherEntity::new(
            PublisherQos::const_default(), h, Vec::new(), None, StatusMask::default()));
    }
    fn push_any_subscriber(p: &mut DcpsDomainParticipant) {
        let k: u8 = kani::any();
        let h = group_handle(p, k, USER_DEFINED_READER_GROUP);
        p.domain_participant.user_defined_subscriber_list.push(UserDefinedSubscriber::new(
            h, SubscriberQos::const_default(), None, StatusMask::default()));
    }

    fn check_create_publisher(existing: usize) {
        let mut p = mk_participant();
        p.publisher_counter = kani::any();
        p.domain_participant.enabled = kani::any();
        let mut n = 0;
        while n < existing {
            push_any_publisher(&mut p);
            n += 1;
        }
        kani::assume(inv_pub(&p));
        let counter_before = p.publisher_counter;
        let r = p.create_user_defined_publisher(QosKind::Default, None, StatusMask::default(), &NoRuntime);
        let l = &p.domain_participant.user_defined_publisher_list;
        match r {
            Ok(h) => {
                assert!(l.len() == existing + 1, "C35: a successful creation adds exactly one publisher");
                assert!(l[existing].instance_handle == h, "C35: the returned handle is the new publisher's");
                let mut i = 0;
                while i < existing {
                    assert!(l[i].instance_handle != h, "C35: the new publisher's handle differs from every existing publisher's");
                    i += 1;
                }
                assert!(h != p.domain_participant.instance_handle, "C35: ... and from the participant's");
                assert!(h[15] == USER_DEFINED_WRITER_GROUP);
            }
            Err(_) => {
                assert!(l.len() == existing, "C35: a failed creation adds nothing");
            }
        }
        assert!(inv_pub(&p), "C35: the handle invariant (keys below the counter, pairwise distinct) is re-established");
        kani::cover!(r.is_ok());
        kani::cover!(counter_before == 255);
        kani::cover!(counter_before as usize == existing);
        core::mem::forget(p);
    }

    /// create_user_defined_publisher from an arbitrary participant state satisfying I_pub (any publisher_counter in
    /// 0..=255, one existing publisher with any key below the counter, enabled or not): never panics; Ok(h) => h is the
    /// handle of exactly one new list entry and differs from every existing publisher handle and from the participant
    /// handle; Err => nothing added; I_pub holds afterwards.
    /// @props C35
    /// @kind bounded
    /// @tier quick
    /// @bounds 1 publisher already in the list (the invariant is per element, the step is independent of the list length)
    /// @fn DcpsDomainParticipant::create_user_defined_publisher, DcpsDomainParticipant::new
    #[cfg_attr(kani, kani::proof)]
    #[cfg_attr(kani, kani::stub(alloc::fmt::format, verif_support::fmt_format_stub))]
    fn c35_create_publisher_unique_handle_no_panic() {
        check_create_publisher(1);
    }

    /// same with two publishers already in the list
    /// @props C35
    /// @kind bounded
    /// @tier thorough
    /// @cbmc --unwind 5 --unwindset memcmp.0:18
    /// @bounds 2 publishers already in the list
    /// @fn DcpsDomainParticipant::create_user_defined_publisher
    #[cfg_attr(kani, kani::proof)]
    #[cfg_attr(kani, kani::stub(alloc::fmt::format, verif_support::fmt_format_stub))]
    fn c35_create_publisher_unique_handle_no_panic_2() {
        check_create_publisher(2);
    }

    fn check_create_subscriber(existing: usize) {
        let mut p = mk_participant();
        p.subscriber_counter = kani::any();
        p.domain_participant.enabled = kani::any();
        let mut n = 0;
        while n < existing {
            push_any_subscriber(&mut p);
            n += 1;
        }
        kani::assume(inv_sub(&p));
        let counter_before = p.subscriber_counter;
        let r = p.create_user_defined_subscriber(QosKind::Default, None, StatusMask::default(), &NoRuntime);
        let l = &p.domain_participant.user_defined_subscriber_list;
        match r {
            Ok(h) => {
                assert!(l.len() == existing + 1, "C35: a successful creation adds exactly one subscriber");
                assert!(l[existing].instance_handle == h, "C35: the returned handle is the new subscriber's");
                let mut i = 0;
                while i < existing {
                    assert!(l[i].instance_handle != h, "C35: the new subscriber's handle differs from every existing subscriber's");
                    i += 1;
                }
                assert!(h != p.domain_participant.instance_handle);
                assert!(h[15] == USER_DEFINED_READER_GROUP);
            }
            Err(_) => {
                assert!(l.len() == existing, "C35: a failed creation adds nothing");
            }
        }
        assert!(inv_sub(&p), "C35: the handle invariant is re-established");
        kani::cover!(r.is_ok());
        kani::cover!(counter_before == 255);
        core::mem::forget(p);
    }

    /// create_user_defined_subscriber: same contract as for publishers (subscriber_counter: u8).
    /// @props C35
    /// @kind bounded
    /// @tier quick
    /// @bounds 1 subscriber already in the list
    /// @fn DcpsDomainParticipant::create_user_defined_subscriber
    #[cfg_attr(kani, kani::proof)]
    #[cfg_attr(kani, kani::stub(alloc::fmt::format, verif_support::fmt_format_stub))]
    fn c35_create_subscriber_unique_handle_no_panic() {
        check_create_subscriber(1);
    }

    // ---------------------------------------------------------------- data writers / data readers (u16 counters)
    use crate::xtypes::dynamic_type::{DynamicTypeBuilderFactory, TypeKind};
    use crate::xtypes::type_object::{TypeIdentifier, TypeIdentifierWithDependencies, TypeIdentifierWithSize, TypeInformation};
    use crate::transport::types::{EntityId, Guid, USER_DEFINED_READER_NO_KEY, USER_DEFINED_READER_WITH_KEY,
        USER_DEFINED_WRITER_NO_KEY, USER_DEFINED_WRITER_WITH_KEY};
    use crate::dcps::dcps_domain_participant::{user_defined_data_reader::UserDefinedDataReader,
        user_defined_data_writer::UserDefinedDataWriter};
    use crate::infrastructure::qos::{DataReaderQos, DataWriterQos};
    use crate::rtps::{stateful_reader::RtpsStatefulReader, stateful_writer::RtpsStatefulWriter};

    fn tiwd() -> TypeIdentifierWithDependencies {
        TypeIdentifierWithDependencies {
            typeid_with_size: TypeIdentifierWithSize { type_id: TypeIdentifier::TkNone, typeobject_serialized_size: 0 },
            dependent_typeid_count: 0,
            dependent_typeids: Vec::new(),
        }
    }

    /// a topic named "t" of a key-less primitive type; built as a struct literal because TopicEntity::new runs the XCDR
    /// serializer and MD5 over the type object (TypeInformation::from), which CBMC cannot get through
    fn push_topic(p: &mut DcpsDomainParticipant) {
        let ts = DynamicTypeBuilderFactory::get_primitive_type(TypeKind::INT32);
        let h = {
            let ph = &p.domain_participant.instance_handle;
            InstanceHandle::new([ph[0], ph[1], ph[2], ph[3], ph[4], ph[5], ph[6], ph[7], ph[8], ph[9], ph[10], ph[11], 0, 0, 0, USER_DEFINED_TOPIC])
        };
        p.domain_participant.locally_created_topic_list.push(TopicEntity {
            qos: TopicQos::const_default(),
            type_name: String::from("i"),
            topic_name: String::from("t"),
            instance_handle: h,
            enabled: false,
            inconsistent_topic_status: crate::infrastructure::status::InconsistentTopicStatus::const_default(),
            status_condition: DcpsStatusCondition::default(),
            listener_sender: None,
            listener_mask: StatusMask::default(),
            type_support: ts,
            type_information: TypeInformation { minimal: tiwd(), complete: tiwd() },
            discovered_type_representation: Vec::new(),
        });
    }

    fn endpoint_handle(p: &DcpsDomainParticipant, group_key: u8, c: u16, kind: u8) -> InstanceHandle {
        let h = &p.domain_participant.instance_handle;
        InstanceHandle::new([h[0], h[1], h[2], h[3], h[4], h[5], h[6], h[7], h[8], h[9], h[10], h[11],
            group_key, (c & 0xff) as u8, (c >> 8) as u8, kind])
    }

    /// create_data_writer for ANY writer_counter (0..=65535) and any publisher key: never panics; Ok(h) => exactly one
    /// writer is added to that publisher, h = participant prefix ++ [publisher key, c_lo, c_hi, writer kind] where c is the
    /// counter value BEFORE the call, the counter afterwards is c + 1, and the GUID of the new RTPS writer is the handle's 16
    /// bytes (prefix, entity id); Err => no writer added and the counter did not go back.  Inductive reading: with the
    /// invariant I_writer "every writer handle ever handed out has its counter part below writer_counter", the new handle
    /// (counter part == old counter) differs from every existing one, and I_writer holds again - for histories of any length.
    /// @props C35
    /// @kind bounded
    /// @tier extended
    /// @timeout 2400
    /// @bounds 1 publisher (disabled, so the enable/announce path is not taken) with an empty writer list; topic of a key-less primitive type
    /// @fn DcpsDomainParticipant::create_data_writer, RtpsStatefulWriter::new, UserDefinedDataWriter::new
    #[cfg_attr(kani, kani::proof)]
    #[cfg_attr(kani, kani::stub(alloc::fmt::format, verif_support::fmt_format_stub))]
    fn c35_create_data_writer_unique_handle_no_panic() {
        let mut p = mk_participant();
        push_topic(&mut p);
        p.publisher_counter = 1;
        p.writer_counter = kani::any();
        let pk: u8 = kani::any();
        let ph = group_handle(&p, pk, USER_DEFINED_WRITER_GROUP);
        p.domain_participant.user_defined_publisher_list.push(PublisherEntity::new(
            PublisherQos::const_default(), ph, Vec::new(), None, StatusMask::default()));
        let prefix = Guid::from(*p.domain_participant.instance_handle.as_ref()).prefix();
        let c = p.writer_counter;

        let r = p.create_data_writer(&ph, String::from("t"), QosKind::Default, None, StatusMask::default(), &NoRuntime);

        let l = &p.domain_participant.user_defined_publisher_list[0].data_writer_list;
        match r {
            Ok(h) => {
                assert!(l.len() == 1, "C35: a successful creation adds exactly one writer");
                assert!(l[0].instance_handle == h, "C35: the returned handle is the new writer's");
                assert!(h == endpoint_handle(&p, pk, c, USER_DEFINED_WRITER_NO_KEY),
                    "C35: handle = prefix ++ [publisher key, counter before (LE), kind]");
                assert!(p.writer_counter as u32 == c as u32 + 1, "C35: the counter moves past the handed-out value");
                assert!(l[0].transport_writer.guid() == Guid::new(prefix, EntityId::new([h[12], h[13], h[14]], h[15])),
                    "C35: the RTPS GUID is the handle's bytes, so distinct handles give distinct GUIDs");
            }
            Err(_) => {
                assert!(l.len() == 0, "C35: a failed creation adds nothing");
                assert!(p.writer_counter >= c, "C35: the counter never goes back");
            }
        }
        kani::cover!(r.is_ok());
        kani::cover!(c == 65535);
        core::mem::forget(p);
    }

    /// create_data_reader: same contract (reader_counter: u16, participant-wide).
    /// @props C35
    /// @kind bounded
    /// @tier extended
    /// @timeout 2400
    /// @bounds 1 subscriber (disabled) with an empty reader list; topic of a key-less primitive type
    /// @fn DcpsDomainParticipant::create_data_reader, RtpsStatefulReader::new, UserDefinedDataReader::new
    #[cfg_attr(kani, kani::proof)]
    #[cfg_attr(kani, kani::stub(alloc::fmt::format, verif_support::fmt_format_stub))]
    fn c35_create_data_reader_unique_handle_no_panic() {
        let mut p = mk_participant();
        push_topic(&mut p);
        p.subscriber_counter = 1;
        p.reader_counter = kani::any();
        let sk: u8 = kani::any();
        let sh = group_handle(&p, sk, USER_DEFINED_READER_GROUP);
        p.domain_participant.user_defined_subscriber_list.push(UserDefinedSubscriber::new(
            sh, SubscriberQos::const_default(), None, StatusMask::default()));
        let prefix = Guid::from(*p.domain_participant.instance_handle.as_ref()).prefix();
        let c = p.reader_counter;

        let r = p.create_data_reader(&sh, String::from("t"), QosKind::Default, None, StatusMask::default(), &NoRuntime);

        let l = &p.domain_participant.user_defined_subscriber_list[0].data_reader_list;
        match r {
            Ok(h) => {
                assert!(l.len() == 1, "C35: a successful creation adds exactly one reader");
                assert!(l[0].instance_handle == h, "C35: the returned handle is the new reader's");
                assert!(h[12] == sk && u16::from_ne_bytes([h[13], h[14]]) == c && h[15] == USER_DEFINED_READER_NO_KEY
                    && h[0] == prefix[0] && h[11] == prefix[11], "C35: handle = prefix ++ [subscriber key, counter before, kind]");
                assert!(p.reader_counter as u32 == c as u32 + 1, "C35: the counter moves past the handed-out value");
                assert!(l[0].transport_reader.guid() == Guid::new(prefix, EntityId::new([h[12], h[13], h[14]], h[15])),
                    "C35: the RTPS GUID is the handle's bytes");
            }
            Err(_) => {
                assert!(l.len() == 0, "C35: a failed creation adds nothing");
                assert!(p.reader_counter >= c);
            }
        }
        kani::cover!(r.is_ok());
        kani::cover!(c == 65535);
        core::mem::forget(p);
    }

    /// create_content_filtered_topic shares topic_counter (u16) with create_topic: never panics for any counter value;
    /// Ok(h) => h is prefix ++ [0, c_lo, c_hi, USER_DEFINED_TOPIC] with c = the counter before, and the counter afterwards is
    /// c + 1 (so every topic handle ever handed out is below the counter: handles of topics alive at the same time differ).
    /// create_topic itself is NOT under contract: TopicEntity::new runs the XCDR serializer and MD5 (TypeInformation::from).
    /// @props C35
    /// @kind bounded
    /// @tier quick
    /// @bounds 1 topic in locally_created_topic_list
    /// @fn DcpsDomainParticipant::create_content_filtered_topic
    #[cfg_attr(kani, kani::proof)]
    #[cfg_attr(kani, kani::stub(alloc::fmt::format, verif_support::fmt_format_stub))]
    fn c35_create_content_filtered_topic_no_panic() {
        let mut p = mk_participant();
        push_topic(&mut p);
        p.domain_participant.topic_counter = kani::any();
        let c = p.domain_participant.topic_counter;
        let ph = p.domain_participant.instance_handle;
        let r = p.create_content_filtered_topic(&ph, String::from("f"), String::from("t"), String::from("x"), Vec::new());
        match r {
            Ok(h) => {
                assert!(u16::from_ne_bytes([h[13], h[14]]) == c && h[12] == 0 && h[15] == USER_DEFINED_TOPIC);
                assert!(p.domain_participant.topic_counter as u32 == c as u32 + 1, "C35: topic handles are handed out below the counter");
                assert!(p.domain_participant.content_filtered_topic_list.len() == 1);
            }
            Err(_) => {
                assert!(p.domain_participant.content_filtered_topic_list.len() == 0, "C35: a failed creation adds nothing");
            }
        }
        kani::cover!(r.is_ok());
        kani::cover!(c == 65535);
        core::mem::forget(p);
    }

    // ---------------------------------------------------------------- C36: deletion preconditions
    fn mk_writer_in(p: &DcpsDomainParticipant, pk: u8, c: u16) -> UserDefinedDataWriter {
        let h = endpoint_handle(p, pk, c, USER_DEFINED_WRITER_NO_KEY);
        let prefix = Guid::from(*p.domain_participant.instance_handle.as_ref()).prefix();
        let g = Guid::new(prefix, EntityId::new([pk, (c & 0xff) as u8, (c >> 8) as u8], USER_DEFINED_WRITER_NO_KEY));
        UserDefinedDataWriter::new(h, RtpsStatefulWriter::new(g, 1344), String::from("t"), None, StatusMask::default(), DataWriterQos::const_default())
    }

    fn code_of(r: &DdsResult<()>) -> u8 {
        match r { Ok(()) => 0, Err(DdsError::PreconditionNotMet(_)) => 1, Err(DdsError::AlreadyDeleted) => 2, Err(_) => 3 }
    }

    /// C36: a publisher that still contains a data writer cannot be deleted.  Participant with one publisher (arbitrary
    /// key) holding one data writer: delete_user_defined_publisher returns PreconditionNotMet and changes nothing (the
    /// publisher and its writer are still there); through a wrong participant handle it is PreconditionNotMet as well.
    /// @props C36
    /// @kind bounded
    /// @tier extended
    /// @timeout 3000
    /// @bounds 1 publisher, 1 data writer
    /// @fn DcpsDomainParticipant::delete_user_defined_publisher
    #[cfg_attr(kani, kani::proof)]
    #[cfg_attr(kani, kani::stub(alloc::fmt::format, verif_support::fmt_format_stub))]
    fn c36_delete_publisher_with_writer_is_refused() {
        let mut p = mk_participant();
        push_topic(&mut p);
        let k1: u8 = kani::any();
        let h1 = group_handle(&p, k1, USER_DEFINED_WRITER_GROUP);
        p.domain_participant.user_defined_publisher_list.push(PublisherEntity::new(PublisherQos::const_default(), h1, Vec::new(), None, StatusMask::default()));
        let w = mk_writer_in(&p, k1, 0);
        p.domain_participant.user_defined_publisher_list[0].data_writer_list.push(w);
        let right_parent: bool = kani::any();
        let parent = if right_parent { p.domain_participant.instance_handle } else { h1 };
        let r = p.delete_user_defined_publisher(&parent, &h1);
        assert!(code_of(&r) == 1, "C36: a publisher that still contains a data writer cannot be deleted: PreconditionNotMet");
        let l = &p.domain_participant.user_defined_publisher_list;
        assert!(l.len() == 1 && l[0].instance_handle == h1 && l[0].data_writer_list.len() == 1, "C36: a refused deletion changes nothing");
        core::mem::forget(r);
        core::mem::forget(p);
    }

    /// C36: deleting empty publishers.  Participant with two empty publishers (arbitrary distinct keys): deleting the first
    /// through a wrong participant handle is PreconditionNotMet and changes nothing; through the right one it is Ok and
    /// exactly that publisher is gone; deleting it again is AlreadyDeleted and the other publisher is untouched.
    /// @props C36
    /// @kind bounded
    /// @tier extended
    /// @timeout 3000
    /// @bounds 2 publishers, no data writer
    /// @fn DcpsDomainParticipant::delete_user_defined_publisher, DomainParticipantEntity::remove_publisher
    #[cfg_attr(kani, kani::proof)]
    #[cfg_attr(kani, kani::stub(alloc::fmt::format, verif_support::fmt_format_stub))]
    fn c36_delete_empty_publisher_then_already_deleted() {
        let mut p = mk_participant();
        let k1: u8 = kani::any();
        let k2: u8 = kani::any();
        kani::assume(k1 != k2);
        let h1 = group_handle(&p, k1, USER_DEFINED_WRITER_GROUP);
        let h2 = group_handle(&p, k2, USER_DEFINED_WRITER_GROUP);
        p.domain_participant.user_defined_publisher_list.push(PublisherEntity::new(PublisherQos::const_default(), h1, Vec::new(), None, StatusMask::default()));
        p.domain_participant.user_defined_publisher_list.push(PublisherEntity::new(PublisherQos::const_default(), h2, Vec::new(), None, StatusMask::default()));
        let ph = p.domain_participant.instance_handle;
        let r0 = p.delete_user_defined_publisher(&h2, &h1);
        assert!(code_of(&r0) == 1 && p.domain_participant.user_defined_publisher_list.len() == 2, "C36: deleting through another participant is PreconditionNotMet and changes nothing");
        let r1 = p.delete_user_defined_publisher(&ph, &h1);
        assert!(code_of(&r1) == 0, "C36: an empty publisher is deleted");
        assert!(p.domain_participant.user_defined_publisher_list.len() == 1
            && p.domain_participant.user_defined_publisher_list[0].instance_handle == h2, "C36: exactly the named publisher is removed");
        let r2 = p.delete_user_defined_publisher(&ph, &h1);
        assert!(code_of(&r2) == 2, "C36: deleting it again is AlreadyDeleted");
        assert!(p.domain_participant.user_defined_publisher_list.len() == 1);
        core::mem::forget(r0);
        core::mem::forget(r1);
        core::mem::forget(r2);
        core::mem::forget(p);
    }

    fn mk_reader_in(p: &DcpsDomainParticipant, sk: u8, c: u16) -> UserDefinedDataReader {
        let h = endpoint_handle(p, sk, c, USER_DEFINED_READER_NO_KEY);
        let prefix = Guid::from(*p.domain_participant.instance_handle.as_ref()).prefix();
        let g = Guid::new(prefix, EntityId::new([sk, (c & 0xff) as u8, (c >> 8) as u8], USER_DEFINED_READER_NO_KEY));
        UserDefinedDataReader::new(h, DataReaderQos::const_default(), String::from("t"), None, StatusMask::default(),
            RtpsStatefulReader::new(g, crate::transport::types::ReliabilityKind::BestEffort))
    }

    /// C36: a subscriber that still contains a data reader cannot be deleted: PreconditionNotMet and NOTHING changes - the
    /// subscriber and its reader are still in the participant afterwards (a refused deletion must not remove first and
    /// check later).
    /// @props C36
    /// @kind bounded
    /// @tier extended
    /// @timeout 3000
    /// @bounds 1 subscriber, 1 data reader
    /// @fn DcpsDomainParticipant::delete_user_defined_subscriber
    #[cfg_attr(kani, kani::proof)]
    #[cfg_attr(kani, kani::stub(alloc::fmt::format, verif_support::fmt_format_stub))]
    fn c36_delete_subscriber_with_reader_is_refused() {
        let mut p = mk_participant();
        push_topic(&mut p);
        let k1: u8 = kani::any();
        let h1 = group_handle(&p, k1, USER_DEFINED_READER_GROUP);
        p.domain_participant.user_defined_subscriber_list.push(UserDefinedSubscriber::new(h1, SubscriberQos::const_default(), None, StatusMask::default()));
        let rd = mk_reader_in(&p, k1, 0);
        p.domain_participant.user_defined_subscriber_list[0].data_reader_list.push(rd);
        let ph = p.domain_participant.instance_handle;
        let r = p.delete_user_defined_subscriber(&ph, &h1);
        assert!(code_of(&r) == 1, "C36: a subscriber that still contains a data reader cannot be deleted: PreconditionNotMet");
        let l = &p.domain_participant.user_defined_subscriber_list;
        assert!(l.len() == 1 && l[0].instance_handle == h1 && l[0].data_reader_list.len() == 1, "C36: a refused deletion changes nothing");
        core::mem::forget(r);
        core::mem::forget(p);
    }

    /// C36: delete_user_defined_topic.  Participant with topic "t" and one publisher that holds a writer on "t" (removed before the last call):
    /// deleting "t" is PreconditionNotMet while the writer exists (topic still there), Ok otherwise (topic gone); deleting
    /// an unknown topic name is AlreadyDeleted; through a wrong participant handle PreconditionNotMet; refused deletions
    /// change nothing.
    /// @props C36
    /// @kind bounded
    /// @tier extended
    /// @timeout 3000
    /// @bounds 1 topic, 1 publisher, 1 data writer
    /// @fn DcpsDomainParticipant::delete_user_defined_topic
    #[cfg_attr(kani, kani::proof)]
    #[cfg_attr(kani, kani::stub(alloc::fmt::format, verif_support::fmt_format_stub))]
    fn c36_delete_topic_preconditions() {
        let mut p = mk_participant();
        push_topic(&mut p);
        let h1 = group_handle(&p, 1, USER_DEFINED_WRITER_GROUP);
        p.domain_participant.user_defined_publisher_list.push(PublisherEntity::new(PublisherQos::const_default(), h1, Vec::new(), None, StatusMask::default()));
        let w = mk_writer_in(&p, 1, 0);
        p.domain_participant.user_defined_publisher_list[0].data_writer_list.push(w);
        let ph = p.domain_participant.instance_handle;
        let r0 = p.delete_user_defined_topic(&h1, String::from("t"));
        assert!(code_of(&r0) == 1 && p.domain_participant.locally_created_topic_list.len() == 1, "C36: deleting through another participant is PreconditionNotMet and changes nothing");
        let r1 = p.delete_user_defined_topic(&ph, String::from("u"));
        assert!(code_of(&r1) == 2 && p.domain_participant.locally_created_topic_list.len() == 1, "C36: an unknown topic is AlreadyDeleted");
        let r2 = p.delete_user_defined_topic(&ph, String::from("t"));
        assert!(code_of(&r2) == 1 && p.domain_participant.locally_created_topic_list.len() == 1, "C36: a topic still used by a data writer cannot be deleted and stays");
        // once the writer is gone the topic can be deleted
        let w = p.domain_participant.user_defined_publisher_list[0].data_writer_list.pop();
        core::mem::forget(w);
        let r3 = p.delete_user_defined_topic(&ph, String::from("t"));
        assert!(code_of(&r3) == 0 && p.domain_participant.locally_created_topic_list.len() == 0, "C36: an unused topic is deleted");
        core::mem::forget((r0, r1, r2, r3));
        core::mem::forget(p);
    }
