    // @unit name=message_receiver file=dds/src/rtps/message_receiver.rs unwind=4 unwindset=memcmp.0:30
    // Child module of rtps/message_receiver.rs (C06): the interpreter-submessage loop of MessageReceiver (INFO_TS, INFO_DST,
    // INFO_SRC, INFO_REPLY, PAD) never panics, whatever well-formed submessage a datagram carries.
    // @assume datagram structure concrete (one submessage of the given kind after a valid RTPS header), field values symbolic

    use crate::rtps_messages::overall_structure::RtpsMessageRead;

    /// C06: a datagram carrying an INFO_REPLY submessage (a legal RTPS submessage; here with zero reply locators, with or
    /// without the multicast flag) is consumed by the MessageReceiver without panic and yields no entity submessage -
    /// `todo!()` on it would let any sender kill the participant's worker with one 28-byte datagram.
    /// @props C06
    /// @kind bounded
    /// @tier quick
    /// @timeout 900
    /// @bounds concrete 28/32-byte datagrams: RTPS header + INFO_REPLY with zero locators (multicast flag clear / set)
    /// @fn <MessageReceiver as Iterator>::next, MessageReceiver::new, RtpsMessageRead::try_from, InfoReplySubmessage::try_from_bytes
    #[cfg_attr(kani, kani::proof)]
    fn c06_info_reply_does_not_panic_the_receiver() {
        let d1: [u8; 28] = [b'R', b'T', b'P', b'S', 2, 4, 1, 0x14, 0, 0, 0, 0, 0, 0, 0, 0, 0, 0, 0, 0,
            0x0f, 0x01, 4, 0, 0, 0, 0, 0];
        match RtpsMessageRead::try_from(&d1[..]) {
            Ok(m) => {
                assert!(m.submessages().len() == 1, "the INFO_REPLY submessage is decoded");
                let mut r = MessageReceiver::new(&m);
                assert!(r.next().is_none(), "C06: an INFO_REPLY is interpreted (or ignored), it is not an entity submessage");
                core::mem::forget(m);
            }
            Err(_) => assert!(false, "a well-formed datagram decodes"),
        }
        let d2: [u8; 32] = [b'R', b'T', b'P', b'S', 2, 4, 1, 0x14, 0, 0, 0, 0, 0, 0, 0, 0, 0, 0, 0, 0,
            0x0f, 0x03, 8, 0, 0, 0, 0, 0, 0, 0, 0, 0];
        match RtpsMessageRead::try_from(&d2[..]) {
            Ok(m) => {
                assert!(m.submessages().len() == 1);
                let mut r = MessageReceiver::new(&m);
                assert!(r.next().is_none(), "C06: an INFO_REPLY with the multicast flag is interpreted (or ignored) as well");
                core::mem::forget(m);
            }
            Err(_) => assert!(false, "a well-formed datagram decodes"),
        }
    }
