    // @unit name=gap_handler file=dds/src/dcps/dcps_domain_participant/communication_methods.rs unwind=5 unwindset=memcmp.0:18
    // Child module of communication_methods.rs (C06, C01): the GAP-handling statement of handle_gap_submessage lives inside an
    // actor method that iterates over every reader of the participant; the `if let Some(writer_proxy) = ... { ... }` block is
    // copied verbatim on every run into a generated function of its free variables (dr, writer_guid, gap_submessage) and run
    // against a REAL RtpsStatefulReader with one matched writer proxy in an arbitrary state.
    // @statement {"start": "if let Some\\(writer_proxy\\) = dr\\.transport_reader\\.matched_writer_lookup\\(writer_guid\\) \\{(?=[^{}]*gap_submessage)", "signature": "fn verif_gap_block(dr: &mut VerifDr, writer_guid: Guid, gap_submessage: &GapSubmessage)"}
    // @assume a GAP whose sequence numbers are so hostile that base - 1 or the members overflow i64 is rejected by the decoder (C07: SequenceNumberSet members are representable) or does not occur (gap_start < base implies base > i64::MIN)

    use crate::rtps::stateful_reader::RtpsStatefulReader;
    use crate::rtps_messages::submessage_elements::SequenceNumberSet;
    use crate::transport::types::{DurabilityKind, EntityId, ReliabilityKind, WriterProxy};

    struct VerifDr { transport_reader: RtpsStatefulReader }

    /// C06/C01: GAP handling does work proportional to the submessage, not to the numbers in it, and marks exactly the
    /// announced range irrelevant.  For a matched writer proxy in an arbitrary state and EVERY gap_start and gap_list base
    /// (all i64 with base <= i64::MAX - 64; up to 2^63 numbers apart) and an optional member base + d (d < 32): the block
    /// terminates within a constant number of loop iterations (unwinding assertion on: a loop over gap_start..base is a
    /// violation - a single hostile GAP would occupy the worker for up to 2^63 iterations), and afterwards the proxy's
    /// available_changes_max is max(old, base - 1 if gap_start < base, the member if present) - every number of the gap
    /// counts as received-irrelevant, nothing else changes.
    /// @props C06 C01
    /// @kind bounded
    /// @tier quick
    /// @timeout 900
    /// @unwind_failure violation
    /// @bounds 1 matched proxy; gap list with at most one member within [base, base+31]
    /// @loops SequenceNumberSet:36
    /// @fn DcpsDomainParticipant::handle_gap_submessage (statement), RtpsWriterProxy::irrelevant_change_set, SequenceNumberSet::set
    #[cfg_attr(kani, kani::proof)]
    fn c06_gap_handling_is_bounded_and_exact() {
        let reader_guid = Guid::new([9; 12], EntityId::new([1, 0, 0], 7));
        let mut reader = RtpsStatefulReader::new(reader_guid, ReliabilityKind::Reliable);
        let wg = Guid::new([3; 12], EntityId::new([2, 0, 0], 2));
        reader.add_matched_writer(&WriterProxy {
            remote_writer_guid: wg,
            remote_group_entity_id: EntityId::new([0, 0, 0], 0),
            reliability_kind: ReliabilityKind::Reliable,
            durability_kind: DurabilityKind::Volatile,
            unicast_locator_list: Vec::new(),
            multicast_locator_list: Vec::new(),
        });
        let first: i64 = kani::any();
        let highest: i64 = kani::any();
        kani::assume(first > i64::MIN && highest < i64::MAX);
        {
            let p = reader.matched_writer_lookup(wg).unwrap();
            p.lost_changes_update(first);
            p.irrelevant_change_set(highest);
        }
        let before = reader.matched_writer_lookup(wg).unwrap().available_changes_max();
        let gap_start: i64 = kani::any();
        let base: i64 = kani::any();
        kani::assume(base <= i64::MAX - 64);
        let d: u8 = kani::any();
        kani::assume(d < 32);
        let has_member: bool = kani::any();
        let list = if has_member { SequenceNumberSet::new(base, [base + d as i64]) } else { SequenceNumberSet::new(base, []) };
        let gap = GapSubmessage::new(EntityId::new([1, 0, 0], 7), EntityId::new([2, 0, 0], 2), gap_start, list);
        let mut dr = VerifDr { transport_reader: reader };
        verif_gap_block(&mut dr, wg, &gap);
        let after = dr.transport_reader.matched_writer_lookup(wg).unwrap().available_changes_max();
        let mut expect = before;
        if gap_start < base && base - 1 > expect { expect = base - 1; }
        if has_member && base + d as i64 > expect { expect = base + d as i64; }
        assert!(after == expect, "C01/C06: a GAP makes exactly the announced numbers irrelevant (available_changes_max = max(old, base-1, members))");
        kani::cover!(gap_start == 1 && base > 1_000_000_000_000);
        kani::cover!(gap_start >= base && has_member);
        core::mem::forget(dr);
        core::mem::forget(gap);
    }
