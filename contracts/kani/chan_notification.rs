    // @unit name=chan_notification file=dds/src/dcps/channels/notification.rs
    // Child module of dds/src/dcps/channels/notification.rs (C34): same scheme as chan_oneshot.
    // Invariant I: (notified || sender_count == 0) ==> waker.is_none(); sender_count == number of live senders.
    // @assume critical_section::with gives mutual exclusion (acquire/release stubbed as no-ops via verif_support): each channel operation is one atomic step

    use alloc::task::Wake;
    use core::sync::atomic::{AtomicUsize, Ordering};

    struct CountWake(AtomicUsize);
    impl Wake for CountWake {
        fn wake(self: Arc<Self>) {
            self.0.fetch_add(1, Ordering::SeqCst);
        }
    }
    fn counter() -> Arc<CountWake> { Arc::new(CountWake(AtomicUsize::new(0))) }
    fn wakes(c: &Arc<CountWake>) -> usize { c.0.load(Ordering::SeqCst) }
    // 0 = Pending, 1 = Ready(Ok), 2 = Ready(Err(AlreadyDeleted)), 3 = other
    fn poll_code(rx: &mut NotificationReceiver, w: &Waker) -> u8 {
        let mut cx = Context::from_waker(w);
        match Pin::new(rx).poll(&mut cx) {
            Poll::Pending => 0,
            Poll::Ready(Ok(())) => 1,
            Poll::Ready(Err(DdsError::AlreadyDeleted)) => 2,
            Poll::Ready(Err(_)) => 3,
        }
    }
    fn inner_of(rx: &NotificationReceiver) -> (bool, bool, usize) {
        critical_section::with(|cs| {
            let i = rx.inner.borrow(cs).borrow();
            (i.notified, i.waker.is_some(), i.sender_count)
        })
    }

    /// notify / clone / drop with 1 or 2 senders: notify wakes a parked receiver exactly once and the next poll is
    /// Ready(Ok) exactly once (then Pending again while a sender lives); clone and drop keep sender_count equal to the
    /// number of live senders; dropping the LAST sender (and only the last) wakes a parked receiver and makes poll report
    /// disconnection; dropping one of two senders neither wakes nor disconnects.
    /// @props C34
    /// @kind proof
    /// @tier quick
    /// @bounds none on the finite state explored: receiver parked or not x 1 or 2 senders x notify or not before the drops
    /// @fn NotificationSender::notify, <NotificationSender as Clone>::clone, <NotificationSender as Drop>::drop, <NotificationReceiver as Future>::poll
    #[cfg_attr(kani, kani::proof)]
    #[cfg_attr(kani, kani::stub(critical_section::acquire, verif_support::cs_acquire))]
    #[cfg_attr(kani, kani::stub(critical_section::release, verif_support::cs_release))]
    fn c34_notification_notify_clone_drop() {
        let (tx, mut rx) = notification();
        let c = counter();
        let w = Waker::from(c.clone());
        let two: bool = kani::any();
        let tx2 = if two { Some(tx.clone()) } else { None };
        assert!(inner_of(&rx).2 == if two { 2 } else { 1 }, "C34: sender_count equals the number of live senders");
        let parked: bool = kani::any();
        if parked {
            assert!(poll_code(&mut rx, &w) == 0, "C34: not notified and a sender alive: Pending");
        }
        let do_notify: bool = kani::any();
        let mut expected_wakes = 0;
        if do_notify {
            tx.notify();
            if parked { expected_wakes += 1; }
            assert!(wakes(&c) == expected_wakes, "C34: notify wakes a waiting receiver exactly once");
            assert!(!inner_of(&rx).1, "C34 invariant: no parked waker once notified");
            assert!(poll_code(&mut rx, &w) == 1, "C34: the notification is delivered");
            assert!(poll_code(&mut rx, &w) == 0, "C34: exactly once; then Pending again while a sender is alive");
            // the receiver is parked again now
        }
        let parked_now = parked || do_notify;
        if two {
            drop(tx2);
            assert!(inner_of(&rx).2 == 1);
            assert!(wakes(&c) == expected_wakes, "C34: dropping a sender that is not the last wakes nobody");
            assert!(poll_code(&mut rx, &w) == 0, "C34: no disconnection while a sender is alive");
        }
        drop(tx);
        let parked_final = parked_now || two;
        if parked_final { expected_wakes += 1; }
        assert!(inner_of(&rx).2 == 0);
        assert!(wakes(&c) == expected_wakes, "C34: dropping the last sender wakes a waiting receiver exactly once");
        assert!(poll_code(&mut rx, &w) == 2, "C34: disconnection reported once every sender is dropped");
        kani::cover!(two && parked && do_notify);
        kani::cover!(!two && !parked && !do_notify);
        core::mem::forget(rx);
        core::mem::forget(w);
        core::mem::forget(c);
    }

    /// poll from an ARBITRARY inner state satisfying I: Ready(Ok) iff notified (and the flag is cleared), else
    /// Ready(Err(AlreadyDeleted)) iff sender_count == 0, else Pending with the waker of THIS poll stored (replacing any waker of an earlier poll); poll wakes nobody
    /// and never changes sender_count.  A pending notification is delivered even after the last sender is gone.
    /// @props C34
    /// @kind proof
    /// @tier quick
    /// @bounds sender_count in 0..=2 (poll only tests it against 0)
    /// @fn <NotificationReceiver as Future>::poll
    #[cfg_attr(kani, kani::proof)]
    #[cfg_attr(kani, kani::stub(critical_section::acquire, verif_support::cs_acquire))]
    #[cfg_attr(kani, kani::stub(critical_section::release, verif_support::cs_release))]
    fn c34_notification_poll_contract_from_any_state() {
        let (tx, mut rx) = notification();
        let old = counter();
        let c = counter();
        let w = Waker::from(c.clone());
        let notified: bool = kani::any();
        let n: usize = kani::any();
        kani::assume(n <= 2);
        let slot: bool = kani::any();
        kani::assume(!(notified || n == 0) || !slot); // I
        critical_section::with(|cs| {
            let mut i = rx.inner.borrow(cs).borrow_mut();
            i.notified = notified;
            i.sender_count = n;
            i.waker = if slot { Some(Waker::from(old.clone())) } else { None };
        });
        let r = poll_code(&mut rx, &w);
        let (n2, w2, c2) = inner_of(&rx);
        if notified {
            assert!(r == 1 && !n2 && !w2, "C34: a pending notification is delivered and consumed");
        } else if n == 0 {
            assert!(r == 2 && !w2, "C34: disconnection iff not notified and no sender left");
        } else {
            assert!(r == 0 && w2 && !n2, "C34: Pending only if not notified and a sender is alive; the caller's waker is stored");
        }
        assert!(c2 == n);
        assert!(wakes(&c) == 0 && wakes(&old) == 0);
        if r == 0 {
            // the waker that a later notify / last drop will wake must be the one of THIS (most recent) poll, not a stale
            // one from an earlier poll: wake whatever is stored and see who was woken
            let stored = critical_section::with(|cs| rx.inner.borrow(cs).borrow_mut().waker.take());
            match stored {
                Some(sw) => sw.wake(),
                None => assert!(false),
            }
            assert!(wakes(&c) == 1 && wakes(&old) == 0, "C34: Pending registers the waker of the most recent poll (a stale waker would lose the wake-up)");
        }
        core::mem::forget(tx);
        core::mem::forget(rx);
        core::mem::forget(w);
        core::mem::forget(c);
        core::mem::forget(old);
    }
