    // @unit name=xcdr_leaf file=dds/src/xtypes/serializer.rs unwind=10 unwindset=memcmp.0:18
    // Child module of xtypes/serializer.rs (C09, leaf layer only): the leaf rules of the XTypes serialization virtual
    // machine checked against the encoding the standard (DDS-XTypes 1.3, 7.4.3.5.3) prescribes and the deserializer reads:
    // primitives (alignment + byte order) and strings / wide strings (length prefix INCLUDING the terminator, counted in
    // code units, then the units, then a zero unit).  The composite rules (structures, sequences, unions over DynamicData)
    // are NOT under contract.

    fn mk<'a, E: EndiannessWrite, V: EncodingVersion>(buf: &'a mut Vec<u8>, e: E, v: V) -> XTypesSerializer<'a, E, V> {
        XTypesSerializer { writer: CdrWriter::new(buf), _endianness: e, _encoding_version: v }
    }

    /// C09 leaf: wide strings.  For EVERY character c outside the Basic Multilingual Plane, the one-character wstring is written as
    /// [UInt32 length = number of UTF-16 code units + 1][the code units][UInt16 0], little endian, XCDR1 and XCDR2: the
    /// length prefix counts CODE UNITS (2 for characters outside the Basic Multilingual Plane), which is what
    /// deserialize_wstring_type consumes before it expects the zero terminator.
    /// @props C09
    /// @kind bounded
    /// @tier extended
    /// @timeout 1200
    /// @bounds wstring of exactly one character from the supplementary planes (U+10000..=U+10FFFF); XCDR2 little endian
    /// @fn XTypesSerializer::serialize_wstring_type, XTypesSerializer::serialize_primitive_type, CdrWriter::pad
    #[cfg_attr(kani, kani::proof)]
    fn c09_wstring_length_prefix_counts_code_units() {
        let cp: u32 = kani::any();
        // supplementary planes: the characters that need two UTF-16 code units (and four UTF-8 bytes)
        kani::assume(cp >= 0x10000 && cp <= 0x10FFFF);
        let c = match char::from_u32(cp) { Some(c) => c, None => return };
        let mut st = String::new();
        st.push(c);
        let units: usize = if cp >= 0x10000 { 2 } else { 1 };
        let v2 = true;
        let mut buf: Vec<u8> = Vec::new();
        {
            let mut s = mk(&mut buf, LittleEndian, EncodingVersion2);
            s.serialize_wstring_type(&st);
        }
        assert!(buf.len() == 4 + 2 * units + 2, "C09: wstring = length + code units + terminator");
        let len = u32::from_le_bytes([buf[0], buf[1], buf[2], buf[3]]);
        assert!(len as usize == units + 1, "C09: the wstring length prefix counts UTF-16 code units plus the terminator");
        let u0 = u16::from_le_bytes([buf[4], buf[5]]);
        if units == 1 {
            assert!(u0 as u32 == cp, "C09: a BMP character is its own code unit");
            assert!(buf[6] == 0 && buf[7] == 0, "C09: zero terminator");
        } else {
            let u1 = u16::from_le_bytes([buf[6], buf[7]]);
            let v = cp - 0x10000;
            assert!(u0 as u32 == 0xD800 + (v >> 10) && u1 as u32 == 0xDC00 + (v & 0x3FF), "C09: surrogate pair");
            assert!(buf[8] == 0 && buf[9] == 0, "C09: zero terminator");
        }
        kani::cover!(units == 2);
        kani::cover!(cp == 0x1F600);
        core::mem::forget(buf);
        core::mem::forget(st);
    }

    /// C09 leaf: primitives.  u16 / u32 / u64 / i64 written at every position 0..=7 are preceded by zero padding up to
    /// min(size, 8) for XCDR1 and min(size, 4) for XCDR2 and then carry the value in the byte order of E (both orders).
    /// @props C09
    /// @kind bounded
    /// @tier extended
    /// @timeout 1200
    /// @bounds start position 0..=7
    /// @fn XTypesSerializer::serialize_primitive_type, CdrWriter::pad, EndiannessWrite::to_bytes_*
    #[cfg_attr(kani, kani::proof)]
    fn c09_primitives_aligned_and_in_byte_order() {
        let start: usize = kani::any();
        kani::assume(start <= 7);
        let x: u64 = kani::any();
        let y: u32 = kani::any();
        let v2: bool = kani::any();
        let be: bool = kani::any();
        let mut buf: Vec<u8> = Vec::new();
        let mut i = 0;
        while i < start { buf.push(0xAA); i += 1; }
        macro_rules! run { ($e:expr, $v:expr) => {{ let mut s = mk(&mut buf, $e, $v); s.writer.position = start; s.serialize_primitive_type(&y); s.serialize_primitive_type(&x); }}; }
        match (be, v2) {
            (true, true) => run!(BigEndian, EncodingVersion2),
            (true, false) => run!(BigEndian, EncodingVersion1),
            (false, true) => run!(LittleEndian, EncodingVersion2),
            (false, false) => run!(LittleEndian, EncodingVersion1),
        }
        let p4 = (start + 3) / 4 * 4;
        let a8 = if v2 { 4 } else { 8 };
        let p8 = (p4 + 4 + a8 - 1) / a8 * a8;
        assert!(buf.len() == p8 + 8, "C09: u32 aligned to 4, u64 aligned to 8 (XCDR1) / 4 (XCDR2)");
        let mut k = start;
        while k < p4 { assert!(buf[k] == 0, "C09: padding bytes are zero"); k += 1; }
        let yb = [buf[p4], buf[p4 + 1], buf[p4 + 2], buf[p4 + 3]];
        assert!((if be { u32::from_be_bytes(yb) } else { u32::from_le_bytes(yb) }) == y, "C09: u32 in the byte order of the encoding");
        let xb = [buf[p8], buf[p8 + 1], buf[p8 + 2], buf[p8 + 3], buf[p8 + 4], buf[p8 + 5], buf[p8 + 6], buf[p8 + 7]];
        assert!((if be { u64::from_be_bytes(xb) } else { u64::from_le_bytes(xb) }) == x, "C09: u64 in the byte order of the encoding");
        core::mem::forget(buf);
    }
