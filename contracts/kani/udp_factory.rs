    // @unit name=udp_factory file=dds/src/rtps_udp_transport/udp_transport.rs
    // Child module of dds/src/rtps_udp_transport/udp_transport.rs (C38, C06).

    /// Contract of RtpsUdpTransportParticipantFactory::set_fragment_size, for every previous setting and every
    /// argument: Ok iff 8 <= arg <= 65000, and then the setting equals the argument; otherwise Err(BadParameter)
    /// and the previous setting is unchanged; the other fields are never touched (frame).
    /// @props C38
    /// @kind proof
    /// @tier quick
    /// @fn RtpsUdpTransportParticipantFactory::set_fragment_size, RtpsUdpTransportParticipantFactory::fragment_size
    #[cfg_attr(kani, kani::proof)]
    fn c38_set_fragment_size_contract() {
        let old: usize = kani::any();
        let arg: usize = kani::any();
        let buf: usize = kani::any();
        let mut f = RtpsUdpTransportParticipantFactory {
            interface_name: None,
            fragment_size: old,
            udp_receive_buffer_size: Some(buf),
        };
        let outcome: u8 = match f.set_fragment_size(arg) {
            Ok(_) => 0,
            Err(DdsError::BadParameter) => 1,
            Err(_) => 2,
        };
        let in_range = arg >= 8 && arg <= 65000;
        if in_range {
            assert!(outcome == 0, "C38: a size in 8..=65000 is accepted");
            assert!(f.fragment_size() == arg, "C38: an accepted size becomes the setting");
        } else {
            assert!(outcome == 1, "C38: a size outside 8..=65000 is rejected with BadParameter");
            assert!(f.fragment_size() == old, "C38: a rejected size leaves the previous setting unchanged");
        }
        assert!(f.interface_name.is_none() && f.udp_receive_buffer_size == Some(buf), "C38: frame");
        kani::cover!(in_range);
        kani::cover!(arg == 7);
        kani::cover!(arg == 65001);
        kani::cover!(arg == 0);
    }

    /// The default factory setting satisfies the documented range (so `8 <= fragment_size <= 65000` is an
    /// invariant of every factory reachable through the public API: Default + set_fragment_size).
    /// @props C38
    /// @kind proof
    /// @tier quick
    /// @fn <RtpsUdpTransportParticipantFactory as Default>::default
    #[cfg_attr(kani, kani::proof)]
    fn c38_default_in_range() {
        let f = RtpsUdpTransportParticipantFactory::default();
        assert!(f.fragment_size() >= 8 && f.fragment_size() <= 65000);
    }

    /// C06: sending to ANY locator never panics.  For every Locator (every kind incl. LOCATOR_KIND_UDP_V6 - which a remote
    /// participant can announce in its discovery data -, every port, every address) UdpLocator::to_socket_addrs returns Ok
    /// or Err and is_multicast returns; a UDPv4 locator maps to the IPv4 address in the last four address bytes and the low
    /// 16 bits of the port.
    /// @props C06
    /// @kind proof
    /// @tier quick
    /// @fn <UdpLocator as ToSocketAddrs>::to_socket_addrs, UdpLocator::is_multicast
    #[cfg_attr(kani, kani::proof)]
    fn c06_udp_locator_to_socket_addrs_total() {
        let kind: i32 = kani::any();
        let port: u32 = kani::any();
        let addr: [u8; 16] = kani::any();
        let l = UdpLocator(Locator::new(kind, port, addr));
        let r = l.to_socket_addrs();
        if kind == LOCATOR_KIND_UDP_V4 {
            match r {
                Ok(mut it) => match it.next() {
                    Some(SocketAddr::V4(a)) => {
                        assert!(a.ip().octets() == [addr[12], addr[13], addr[14], addr[15]] && a.port() == port as u16, "UDPv4 locator maps to its address and port");
                    }
                    _ => assert!(false, "a UDPv4 locator gives one IPv4 socket address"),
                },
                Err(_) => assert!(false, "a UDPv4 locator is always convertible"),
            }
        }
        let _m = l.is_multicast();
        kani::cover!(kind == LOCATOR_KIND_UDP_V6);
        kani::cover!(kind == LOCATOR_KIND_UDP_V4);
    }
