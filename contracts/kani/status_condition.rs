    // @unit name=status_condition file=dds/src/dcps/status_condition.rs
    // Child module of dds/src/dcps/status_condition.rs (C32): DcpsStatusCondition under its representation invariant
    //   I(c):  c.get_trigger_value()  ==>  c.registered_notifications is empty
    // ("no waiter stays registered and un-notified while the condition is true") and the trigger-value definition
    //   T(c):  c.get_trigger_value()  <=>  some member of c.status_changes is enabled in c.enabled_statuses.
    // Every public mutator is run from an ARBITRARY state satisfying I (inductive step), so the statements hold after
    // histories of any length; the bound is on the size of the state (2 status changes, 2 registered waiters).
    // @assume critical_section::with gives mutual exclusion: acquire/release are stubbed as no-ops (verif_support), i.e. each NotificationSender::notify / NotificationReceiver::poll body is one atomic step
    // @assume WaitSetAsync::wait's check-then-register is race-free only because both steps are mails handled sequentially by the one worker task; that scheduling argument is not proved here

    use crate::dcps::channels::notification::{notification, NotificationReceiver};
    use core::future::Future;
    use core::pin::Pin;
    use core::task::{Context, Poll, Waker};

    fn any_status() -> StatusKind {
        let c: u8 = kani::any();
        kani::assume(c < 13);
        match c {
            0 => StatusKind::InconsistentTopic,
            1 => StatusKind::OfferedDeadlineMissed,
            2 => StatusKind::RequestedDeadlineMissed,
            3 => StatusKind::OfferedIncompatibleQos,
            4 => StatusKind::RequestedIncompatibleQos,
            5 => StatusKind::SampleLost,
            6 => StatusKind::SampleRejected,
            7 => StatusKind::DataOnReaders,
            8 => StatusKind::DataAvailable,
            9 => StatusKind::LivelinessLost,
            10 => StatusKind::LivelinessChanged,
            11 => StatusKind::PublicationMatched,
            _ => StatusKind::SubscriptionMatched,
        }
    }

    /// A mask given by its restriction to (at most) three arbitrary statuses.  is_enabled is only ever asked about the
    /// members of status_changes (<= 2 here, + 1 added), so every mask behaves like one of these.
    struct AnyMask { s: [StatusKind; 3], on: [bool; 3] }
    fn any_mask() -> AnyMask {
        AnyMask { s: [any_status(), any_status(), any_status()], on: [kani::any(), kani::any(), kani::any()] }
    }
    impl AnyMask {
        fn mask(&self) -> StatusMask {
            let mut v: Vec<StatusKind> = Vec::new();
            if self.on[0] { v.push(self.s[0]); }
            if self.on[1] { v.push(self.s[1]); }
            if self.on[2] { v.push(self.s[2]); }
            let m: StatusMask = v.iter().collect();
            core::mem::forget(v);
            m
        }
        // specification of "x is enabled in this mask", independent of StatusMask's bit encoding
        fn enabled(&self, x: StatusKind) -> bool {
            (self.on[0] && self.s[0] == x) || (self.on[1] && self.s[1] == x) || (self.on[2] && self.s[2] == x)
        }
    }

    fn is_notified(rx: &mut NotificationReceiver) -> bool {
        let w = Waker::noop();
        let mut cx = Context::from_waker(&w);
        match Pin::new(rx).poll(&mut cx) {
            Poll::Ready(Ok(())) => true,
            _ => false,
        }
    }

    /// An arbitrary condition with 2 status changes, an arbitrary mask, and - iff the invariant allows it - 2 registered,
    /// not yet notified waiters.
    struct St { c: DcpsStatusCondition, m: AnyMask, a: StatusKind, b: StatusKind, rx1: NotificationReceiver, rx2: NotificationReceiver, waiters: bool }
    fn any_state() -> St {
        let m = any_mask();
        let a = any_status();
        let b = any_status();
        let mut changes = Vec::new();
        changes.push(a);
        changes.push(b);
        let (tx1, rx1) = notification();
        let (tx2, rx2) = notification();
        let trigger = m.enabled(a) || m.enabled(b);
        let mut regs = Vec::new();
        let waiters = !trigger; // invariant I
        if waiters {
            regs.push(tx1);
            regs.push(tx2);
        } else {
            core::mem::forget(tx1);
            core::mem::forget(tx2);
        }
        let c = DcpsStatusCondition { enabled_statuses: m.mask(), status_changes: changes, registered_notifications: regs };
        St { c, m, a, b, rx1, rx2, waiters }
    }
    fn finish(s: St) {
        core::mem::forget(s.c);
        core::mem::forget(s.rx1);
        core::mem::forget(s.rx2);
    }

    /// T: get_trigger_value() is true exactly when one of the status changes is enabled in the mask.
    /// @props C32
    /// @kind bounded
    /// @tier quick
    /// @bounds 2 status changes (any of the 13 kinds, duplicates allowed); the mask is arbitrary on the kinds that occur
    /// @cbmc --unwind 4 --unwindset memcmp.0:18
    /// @fn DcpsStatusCondition::get_trigger_value, StatusMask::is_enabled, <StatusMask as FromIterator<&StatusKind>>::from_iter
    #[cfg_attr(kani, kani::proof)]
    #[cfg_attr(kani, kani::stub(critical_section::acquire, verif_support::cs_acquire))]
    #[cfg_attr(kani, kani::stub(critical_section::release, verif_support::cs_release))]
    fn c32_trigger_value_iff_enabled_status_changed() {
        let s = any_state();
        assert!(s.c.get_trigger_value() == (s.m.enabled(s.a) || s.m.enabled(s.b)), "C32: trigger value <=> an enabled status has changed");
        assert!(!s.c.get_trigger_value() || s.c.registered_notifications.is_empty());
        kani::cover!(s.c.get_trigger_value());
        kani::cover!(!s.c.get_trigger_value());
        finish(s);
    }

    /// add_communication_state(x) from any state satisfying I: afterwards the trigger value is old || enabled(x); if it is
    /// true every previously registered waiter has been notified and none stays registered (I preserved), otherwise the
    /// waiters are still registered and not notified.
    /// @props C32
    /// @kind bounded
    /// @tier quick
    /// @bounds 2 status changes, 2 registered waiters, arbitrary mask / kinds
    /// @cbmc --unwind 4 --unwindset memcmp.0:18
    /// @fn DcpsStatusCondition::add_communication_state, NotificationSender::notify
    #[cfg_attr(kani, kani::proof)]
    #[cfg_attr(kani, kani::stub(critical_section::acquire, verif_support::cs_acquire))]
    #[cfg_attr(kani, kani::stub(critical_section::release, verif_support::cs_release))]
    fn c32_add_communication_state_notifies_waiters() {
        let mut s = any_state();
        let x = any_status();
        let before = s.c.get_trigger_value();
        s.c.add_communication_state(x);
        let after = s.c.get_trigger_value();
        assert!(after == (before || s.m.enabled(x)), "C32: trigger value <=> an enabled status has changed");
        if after {
            assert!(s.c.registered_notifications.is_empty(), "C32 invariant: no waiter stays registered while the condition is true");
            if s.waiters {
                assert!(is_notified(&mut s.rx1) && is_notified(&mut s.rx2), "C32: every registered waiter is notified when the condition becomes true");
            }
        } else {
            assert!(s.c.registered_notifications.len() == 2, "C32: waiters stay registered while the condition is false");
            assert!(!is_notified(&mut s.rx1) && !is_notified(&mut s.rx2), "C32: no spurious notification");
        }
        kani::cover!(!before && after);
        kani::cover!(!after);
        finish(s);
    }

    /// set_enabled_statuses(mask') from any state satisfying I: afterwards the trigger value is "some changed status is
    /// enabled in mask'"; if it is true every previously registered waiter has been notified and none stays registered -
    /// i.e. enabling a status that ALREADY changed wakes the waiters (statement of C32); the set of changed statuses itself
    /// is not altered by a mask change (frame).
    /// @props C32
    /// @kind bounded
    /// @tier quick
    /// @bounds 2 status changes, 2 registered waiters, arbitrary old and new mask
    /// @cbmc --unwind 4 --unwindset memcmp.0:18
    /// @fn DcpsStatusCondition::set_enabled_statuses, DcpsStatusCondition::get_trigger_value
    #[cfg_attr(kani, kani::proof)]
    #[cfg_attr(kani, kani::stub(critical_section::acquire, verif_support::cs_acquire))]
    #[cfg_attr(kani, kani::stub(critical_section::release, verif_support::cs_release))]
    fn c32_set_enabled_statuses_notifies_waiters() {
        let mut s = any_state();
        let m2 = any_mask();
        s.c.set_enabled_statuses(m2.mask());
        let after = s.c.get_trigger_value();
        assert!(after == (m2.enabled(s.a) || m2.enabled(s.b)), "C32: trigger value <=> an enabled status has changed");
        // frame: which statuses have changed is the entity's communication state, a mask change must not touch it -
        // otherwise a status that changed while disabled is forgotten and enabling it later never wakes anybody
        assert!(s.c.status_changes.len() == 2 && s.c.status_changes[0] == s.a && s.c.status_changes[1] == s.b,
            "C32: set_enabled_statuses leaves the set of changed statuses untouched (a status that changed while disabled still triggers once it is enabled)");
        if after {
            assert!(s.c.registered_notifications.is_empty(), "C32 invariant: no waiter stays registered while the condition is true (enabling an already-changed status)");
            if s.waiters {
                assert!(is_notified(&mut s.rx1) && is_notified(&mut s.rx2), "C32: enabling a status that already changed notifies every registered waiter");
            }
        } else if s.waiters {
            assert!(s.c.registered_notifications.len() == 2);
            assert!(!is_notified(&mut s.rx1) && !is_notified(&mut s.rx2), "C32: no spurious notification");
        }
        kani::cover!(s.waiters && after);
        kani::cover!(s.waiters && !after);
        finish(s);
    }

    /// register_notification from any state satisfying I: if the condition is true the new waiter is notified at once and
    /// not stored, otherwise it is stored un-notified; earlier waiters are untouched (I preserved).
    /// @props C32
    /// @kind bounded
    /// @tier quick
    /// @bounds 2 status changes, 2 already registered waiters, arbitrary mask
    /// @cbmc --unwind 4 --unwindset memcmp.0:18
    /// @fn DcpsStatusCondition::register_notification
    #[cfg_attr(kani, kani::proof)]
    #[cfg_attr(kani, kani::stub(critical_section::acquire, verif_support::cs_acquire))]
    #[cfg_attr(kani, kani::stub(critical_section::release, verif_support::cs_release))]
    fn c32_register_notification_check_then_register() {
        let mut s = any_state();
        let (tx3, mut rx3) = notification();
        let trig = s.c.get_trigger_value();
        s.c.register_notification(tx3);
        assert!(s.c.get_trigger_value() == trig);
        if trig {
            assert!(is_notified(&mut rx3), "C32: registering on a true condition notifies immediately");
            assert!(s.c.registered_notifications.is_empty());
        } else {
            assert!(!is_notified(&mut rx3));
            assert!(s.c.registered_notifications.len() == 3);
            assert!(!is_notified(&mut s.rx1) && !is_notified(&mut s.rx2));
        }
        kani::cover!(trig);
        kani::cover!(!trig);
        core::mem::forget(rx3);
        finish(s);
    }

    /// remove_communication_state(x): afterwards the trigger value is "some remaining change (those != x) is enabled";
    /// the invariant is preserved (the registered list is untouched and the value can only go from true to false).
    /// @props C32
    /// @kind bounded
    /// @tier quick
    /// @bounds 2 status changes, 2 registered waiters, arbitrary mask
    /// @cbmc --unwind 4 --unwindset memcmp.0:18
    /// @fn DcpsStatusCondition::remove_communication_state
    #[cfg_attr(kani, kani::proof)]
    #[cfg_attr(kani, kani::stub(critical_section::acquire, verif_support::cs_acquire))]
    #[cfg_attr(kani, kani::stub(critical_section::release, verif_support::cs_release))]
    fn c32_remove_communication_state_clears_trigger() {
        let mut s = any_state();
        let x = any_status();
        let nreg = s.c.registered_notifications.len();
        s.c.remove_communication_state(x);
        let after = s.c.get_trigger_value();
        assert!(after == ((s.a != x && s.m.enabled(s.a)) || (s.b != x && s.m.enabled(s.b))), "C32: trigger value <=> an enabled status has changed since last read");
        assert!(s.c.registered_notifications.len() == nreg);
        assert!(!after || s.c.registered_notifications.is_empty(), "C32 invariant preserved");
        kani::cover!(after);
        kani::cover!(!after && (s.m.enabled(s.a) || s.m.enabled(s.b)));
        finish(s);
    }
