    // @unit name=chan_oneshot file=dds/src/dcps/channels/oneshot.rs
    // Child module of dds/src/dcps/channels/oneshot.rs (C34).  Every operation of the channel runs entirely inside
    // critical_section::with, so - under the assumption below - each thread interleaving is a sequence of these atomic
    // operations and per-operation contracts over the shared OneshotInner decide the statement for all interleavings.
    // Invariant I: (data.is_some() || !has_sender) ==> waker.is_none()   (no parked receiver is left un-woken).
    // @assume critical_section::with gives mutual exclusion (acquire/release stubbed as no-ops via verif_support): each channel operation is one atomic step; memory-ordering effects of the critical-section implementation are not examined

    use alloc::task::Wake;
    use core::sync::atomic::{AtomicUsize, Ordering};

    struct CountWake(AtomicUsize);
    impl Wake for CountWake {
        fn wake(self: Arc<Self>) {
            self.0.fetch_add(1, Ordering::SeqCst);
        }
    }
    fn counter() -> Arc<CountWake> { Arc::new(CountWake(AtomicUsize::new(0))) }
    fn wakes(c: &Arc<CountWake>) -> usize { c.0.load(Ordering::SeqCst) }

    fn poll_once(rx: &mut OneshotReceiver<u32>, w: &Waker) -> Poll<Result<u32, DdsError>> {
        let mut cx = Context::from_waker(w);
        Pin::new(rx).poll(&mut cx)
    }
    // 0 = Pending, 1 = Ready(Ok(v)) (v returned), 2 = Ready(Err(AlreadyDeleted)), 3 = other error
    fn code(p: Poll<Result<u32, DdsError>>) -> (u8, u32) {
        match p {
            Poll::Pending => (0, 0),
            Poll::Ready(Ok(v)) => (1, v),
            Poll::Ready(Err(DdsError::AlreadyDeleted)) => (2, 0),
            Poll::Ready(Err(_)) => (3, 0),
        }
    }

    /// send: from the state "sender alive, receiver parked or not" (the only states with a live sender: data is None),
    /// send(v) stores exactly v, wakes a parked receiver exactly once (and nobody otherwise), leaves no waker behind
    /// (I), and the receiver then gets Ready(Ok(v)) exactly once: a second poll reports disconnection, never v again.
    /// @props C34
    /// @kind proof
    /// @tier quick
    /// @bounds none: finite state (receiver parked or not) x every u32 value
    /// @fn OneshotSender::send, <OneshotSender as Drop>::drop, <OneshotReceiver as Future>::poll
    #[cfg_attr(kani, kani::proof)]
    #[cfg_attr(kani, kani::stub(critical_section::acquire, verif_support::cs_acquire))]
    #[cfg_attr(kani, kani::stub(critical_section::release, verif_support::cs_release))]
    fn c34_oneshot_send_delivers_exactly_once_and_wakes() {
        let (tx, mut rx) = oneshot::<u32>();
        let c = counter();
        let w = Waker::from(c.clone());
        let parked: bool = kani::any();
        if parked {
            assert!(code(poll_once(&mut rx, &w)).0 == 0, "C34: no value and a live sender: Pending");
        }
        let v: u32 = kani::any();
        tx.send(v);
        assert!(wakes(&c) == if parked { 1 } else { 0 }, "C34: a send wakes a waiting receiver exactly once");
        let waker_left = critical_section::with(|cs| rx.inner.borrow(cs).borrow().waker.is_some());
        assert!(!waker_left, "C34 invariant: no parked waker once a value is available");
        assert!(code(poll_once(&mut rx, &w)) == (1, v), "C34: the sent value is delivered");
        assert!(code(poll_once(&mut rx, &w)).0 == 2, "C34: delivered exactly once; afterwards disconnection");
        assert!(wakes(&c) == if parked { 1 } else { 0 });
        kani::cover!(parked);
        kani::cover!(!parked);
        core::mem::forget(rx);
        core::mem::forget(w);
        core::mem::forget(c);
    }

    /// drop without send: the receiver is woken exactly once if parked and then (and on every later poll) gets
    /// Ready(Err(AlreadyDeleted)); while the sender is alive and nothing was sent, poll is Pending (disconnection is
    /// reported exactly when the sender was dropped without sending).
    /// @props C34
    /// @kind proof
    /// @tier quick
    /// @bounds none: finite state
    /// @fn <OneshotSender as Drop>::drop, <OneshotReceiver as Future>::poll
    #[cfg_attr(kani, kani::proof)]
    #[cfg_attr(kani, kani::stub(critical_section::acquire, verif_support::cs_acquire))]
    #[cfg_attr(kani, kani::stub(critical_section::release, verif_support::cs_release))]
    fn c34_oneshot_drop_reports_disconnection_and_wakes() {
        let (tx, mut rx) = oneshot::<u32>();
        let c = counter();
        let w = Waker::from(c.clone());
        let parked: bool = kani::any();
        if parked {
            assert!(code(poll_once(&mut rx, &w)).0 == 0);
            assert!(code(poll_once(&mut rx, &w)).0 == 0, "C34: still Pending while the sender is alive");
        }
        assert!(wakes(&c) == 0);
        drop(tx);
        assert!(wakes(&c) == if parked { 1 } else { 0 }, "C34: dropping the sender wakes a waiting receiver exactly once");
        assert!(code(poll_once(&mut rx, &w)).0 == 2, "C34: disconnection reported after the sender is dropped without sending");
        assert!(code(poll_once(&mut rx, &w)).0 == 2);
        core::mem::forget(rx);
        core::mem::forget(w);
        core::mem::forget(c);
    }

    /// poll from an ARBITRARY inner state satisfying I: Ready(Ok(v)) iff a value v is stored (and it is removed),
    /// else Ready(Err(AlreadyDeleted)) iff no sender remains, else Pending with the caller's waker stored (replacing an
    /// older one, which is not woken).
    /// @props C34
    /// @kind proof
    /// @tier quick
    /// @bounds none: data (None / any u32) x has_sender x waker slot, restricted by I
    /// @fn <OneshotReceiver as Future>::poll
    #[cfg_attr(kani, kani::proof)]
    #[cfg_attr(kani, kani::stub(critical_section::acquire, verif_support::cs_acquire))]
    #[cfg_attr(kani, kani::stub(critical_section::release, verif_support::cs_release))]
    fn c34_oneshot_poll_contract_from_any_state() {
        let (tx, mut rx) = oneshot::<u32>();
        let old = counter();
        let c = counter();
        let w = Waker::from(c.clone());
        let data: Option<u32> = if kani::any() { Some(kani::any()) } else { None };
        let has_sender: bool = kani::any();
        let slot: bool = kani::any();
        kani::assume(!(data.is_some() || !has_sender) || !slot); // I
        critical_section::with(|cs| {
            let mut i = rx.inner.borrow(cs).borrow_mut();
            i.data = data;
            i.has_sender = has_sender;
            i.waker = if slot { Some(Waker::from(old.clone())) } else { None };
        });
        let r = code(poll_once(&mut rx, &w));
        let (d2, s2, w2) = critical_section::with(|cs| {
            let i = rx.inner.borrow(cs).borrow();
            (i.data, i.has_sender, i.waker.is_some())
        });
        match data {
            Some(v) => assert!(r == (1, v) && d2.is_none() && !w2, "C34: a stored value is returned and removed"),
            None => {
                if !has_sender {
                    assert!(r.0 == 2 && !w2, "C34: disconnection iff no value and no sender");
                } else {
                    assert!(r.0 == 0 && w2 && d2.is_none(), "C34: Pending only with no value and a live sender; the caller's waker is stored");
                }
            }
        }
        assert!(s2 == has_sender);
        assert!(wakes(&c) == 0 && wakes(&old) == 0, "C34: poll wakes nobody");
        if r.0 == 0 {
            // the stored waker must be the one of THIS poll: wake whatever is stored and see who was woken
            let stored = critical_section::with(|cs| rx.inner.borrow(cs).borrow_mut().waker.take());
            match stored {
                Some(sw) => sw.wake(),
                None => assert!(false),
            }
            assert!(wakes(&c) == 1 && wakes(&old) == 0, "C34: Pending registers the waker of the most recent poll (a stale waker would lose the wake-up)");
        }
        core::mem::forget(tx);
        core::mem::forget(rx);
        core::mem::forget(w);
        core::mem::forget(c);
        core::mem::forget(old);
    }
