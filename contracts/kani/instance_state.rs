    // @unit name=instance_state file=dds/src/dcps/dcps_domain_participant/data_reader_entity.rs
    // Child module of dds/src/dcps/dcps_domain_participant/data_reader_entity.rs (C22): the per-instance life-cycle state
    // machine InstanceState::update_state / mark_viewed against the DDS 1.4 statechart (2.2.2.5.1.3 instance_state,
    // 2.2.2.5.1.8 view_state, 2.2.2.5.1.5 generation counts).
    // @assume generation counters < i32::MAX (the += 1 overflow after 2^31 rebirths of one instance is not examined)
    // @assume ChangeKind::AliveFiltered is left out of the domain: the standard does not say whether a filtered-out sample revives an instance; the code treats it as no event

    fn any_instance_state() -> InstanceStateKind {
        let c: u8 = kani::any();
        kani::assume(c < 3);
        match c { 0 => InstanceStateKind::Alive, 1 => InstanceStateKind::NotAliveDisposed, _ => InstanceStateKind::NotAliveNoWriters }
    }
    fn any_view_state() -> ViewStateKind {
        if kani::any() { ViewStateKind::New } else { ViewStateKind::NotNew }
    }
    fn any_change_kind() -> ChangeKind {
        let c: u8 = kani::any();
        kani::assume(c < 4);
        match c { 0 => ChangeKind::Alive, 1 => ChangeKind::NotAliveDisposed, 2 => ChangeKind::NotAliveUnregistered, _ => ChangeKind::NotAliveDisposedUnregistered }
    }
    fn any_state() -> InstanceState {
        let d: i32 = kani::any();
        let n: i32 = kani::any();
        kani::assume(d >= 0 && d < i32::MAX && n >= 0 && n < i32::MAX);
        InstanceState {
            handle: InstanceHandle::new(kani::any()),
            view_state: any_view_state(),
            instance_state: any_instance_state(),
            most_recent_disposed_generation_count: d,
            most_recent_no_writers_generation_count: n,
            last_received_time_stamp: Time::new(kani::any(), 0),
        }
    }

    /// instance_state and generation counts, for every state and every change kind: a dispose (with or without
    /// unregister) of an ALIVE instance leads to NOT_ALIVE_DISPOSED, an unregister to NOT_ALIVE_NO_WRITERS, a write on a
    /// NOT_ALIVE_DISPOSED (resp. NOT_ALIVE_NO_WRITERS) instance makes it ALIVE and increments exactly
    /// disposed_generation_count (resp. no_writers_generation_count) by one; every other combination leaves state and
    /// counters unchanged; the handle never changes; the reception time stamp is replaced iff one is given.
    /// @props C22
    /// @kind proof
    /// @tier quick
    /// @bounds none: 3 instance states x 2 view states x 4 change kinds x all counters < i32::MAX x all handles
    /// @fn InstanceState::update_state
    #[cfg_attr(kani, kani::proof)]
    fn c22_instance_state_and_generation_counts_follow_lifecycle() {
        let mut s = any_state();
        let (st0, d0, n0, h0, t0) = (s.instance_state, s.most_recent_disposed_generation_count, s.most_recent_no_writers_generation_count, s.handle, s.last_received_time_stamp);
        let k = any_change_kind();
        let now: Option<Time> = if kani::any() { Some(Time::new(kani::any(), 0)) } else { None };
        s.update_state(k, now);
        let (exp_state, exp_d, exp_n) = match (st0, k) {
            (InstanceStateKind::Alive, ChangeKind::NotAliveDisposed) | (InstanceStateKind::Alive, ChangeKind::NotAliveDisposedUnregistered) => (InstanceStateKind::NotAliveDisposed, d0, n0),
            (InstanceStateKind::Alive, ChangeKind::NotAliveUnregistered) => (InstanceStateKind::NotAliveNoWriters, d0, n0),
            (InstanceStateKind::NotAliveDisposed, ChangeKind::Alive) => (InstanceStateKind::Alive, d0 + 1, n0),
            (InstanceStateKind::NotAliveNoWriters, ChangeKind::Alive) => (InstanceStateKind::Alive, d0, n0 + 1),
            _ => (st0, d0, n0),
        };
        assert!(s.instance_state == exp_state, "C22: instance_state follows the DDS life cycle");
        assert!(s.most_recent_disposed_generation_count == exp_d, "C22: disposed_generation_count +1 exactly on NOT_ALIVE_DISPOSED -> ALIVE");
        assert!(s.most_recent_no_writers_generation_count == exp_n, "C22: no_writers_generation_count +1 exactly on NOT_ALIVE_NO_WRITERS -> ALIVE");
        assert!(s.handle == h0);
        match now {
            Some(t) => assert!(s.last_received_time_stamp == t),
            None => assert!(s.last_received_time_stamp == t0),
        }
        kani::cover!(st0 == InstanceStateKind::NotAliveDisposed && s.instance_state == InstanceStateKind::Alive);
        kani::cover!(st0 == InstanceStateKind::Alive && s.instance_state == InstanceStateKind::NotAliveNoWriters);
    }

    /// view_state: after update_state it is NEW exactly when it was NEW before (not yet accessed) or the instance was
    /// reborn by this change (NOT_ALIVE_* -> ALIVE); a dispose or unregister alone does not make an already-read instance
    /// NEW again. mark_viewed makes it NOT_NEW and touches nothing else.
    /// @props C22
    /// @kind proof
    /// @tier quick
    /// @bounds none: all states x all change kinds
    /// @fn InstanceState::update_state, InstanceState::mark_viewed
    #[cfg_attr(kani, kani::proof)]
    fn c22_view_state_new_iff_unread_or_reborn() {
        let mut s = any_state();
        let (st0, v0) = (s.instance_state, s.view_state);
        let k = any_change_kind();
        s.update_state(k, None);
        let reborn = st0 != InstanceStateKind::Alive && s.instance_state == InstanceStateKind::Alive;
        assert!((s.view_state == ViewStateKind::New) == (v0 == ViewStateKind::New || reborn),
            "C22: view_state is NEW exactly for an instance not yet accessed or reborn since it was accessed");
        let (st1, d1, n1) = (s.instance_state, s.most_recent_disposed_generation_count, s.most_recent_no_writers_generation_count);
        s.mark_viewed();
        assert!(s.view_state == ViewStateKind::NotNew, "C22: an accessed instance is NOT_NEW");
        assert!(s.instance_state == st1 && s.most_recent_disposed_generation_count == d1 && s.most_recent_no_writers_generation_count == n1);
        kani::cover!(reborn && v0 == ViewStateKind::NotNew);
        kani::cover!(!reborn && v0 == ViewStateKind::NotNew && k == ChangeKind::NotAliveDisposed);
    }
