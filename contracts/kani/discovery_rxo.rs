    // @unit name=discovery_rxo file=dds/src/dcps/dcps_domain_participant/discovery_methods.rs
    // Child module of dds/src/dcps/dcps_domain_participant/discovery_methods.rs (C15): the two private
    // request/offered compatibility functions, checked against a predicate written from the DDS 1.4 RxO table
    // (2.2.3 Supported QoS, "RxO" rows) and from the statement of C15 (liveliness kind and lease separately).

    use crate::builtin_topics::{BuiltInTopicKey, PublicationBuiltinTopicData, SubscriptionBuiltinTopicData};
    use crate::dcps::dcps_domain_participant::data_reader_entity::DataReaderEntity;
    use crate::infrastructure::qos::{DataReaderQos, DataWriterQos, PublisherQos, SubscriberQos};
    use crate::infrastructure::qos_policy::*;
    use crate::infrastructure::time::{Duration, DurationKind};
    use crate::xtypes::type_support::_String;

    struct NoReader(Vec<crate::transport::types::CacheChange>);
    impl RtpsReader for NoReader {
        fn changes_mut(&mut self) -> &mut Vec<crate::transport::types::CacheChange> {
            &mut self.0
        }
    }

    // ---------- symbolic policy values (every kind, every normalized duration incl. INFINITE)
    fn any_duration_kind() -> DurationKind {
        if kani::any() {
            DurationKind::Infinite
        } else {
            let sec: i32 = kani::any();
            let nanosec: u32 = kani::any();
            kani::assume(nanosec < 1_000_000_000);
            DurationKind::Finite(Duration::new(sec, nanosec))
        }
    }
    fn any_durability() -> DurabilityQosPolicyKind {
        match kani::any::<u8>() & 3 {
            0 => DurabilityQosPolicyKind::Volatile,
            1 => DurabilityQosPolicyKind::TransientLocal,
            2 => DurabilityQosPolicyKind::Transient,
            _ => DurabilityQosPolicyKind::Persistent,
        }
    }
    fn durability_rank(k: DurabilityQosPolicyKind) -> u8 {
        match k {
            DurabilityQosPolicyKind::Volatile => 0,
            DurabilityQosPolicyKind::TransientLocal => 1,
            DurabilityQosPolicyKind::Transient => 2,
            DurabilityQosPolicyKind::Persistent => 3,
        }
    }
    fn any_liveliness_kind() -> LivelinessQosPolicyKind {
        let c: u8 = kani::any();
        kani::assume(c < 3);
        match c {
            0 => LivelinessQosPolicyKind::Automatic,
            1 => LivelinessQosPolicyKind::ManualByParticipant,
            _ => LivelinessQosPolicyKind::ManualByTopic,
        }
    }
    fn liveliness_rank(k: LivelinessQosPolicyKind) -> u8 {
        match k {
            LivelinessQosPolicyKind::Automatic => 0,
            LivelinessQosPolicyKind::ManualByParticipant => 1,
            LivelinessQosPolicyKind::ManualByTopic => 2,
        }
    }
    fn any_reliability_kind() -> ReliabilityQosPolicyKind {
        if kani::any() { ReliabilityQosPolicyKind::BestEffort } else { ReliabilityQosPolicyKind::Reliable }
    }
    fn any_dest_order() -> DestinationOrderQosPolicyKind {
        if kani::any() { DestinationOrderQosPolicyKind::ByReceptionTimestamp } else { DestinationOrderQosPolicyKind::BySourceTimestamp }
    }
    fn any_ownership() -> OwnershipQosPolicyKind {
        if kani::any() { OwnershipQosPolicyKind::Shared } else { OwnershipQosPolicyKind::Exclusive }
    }
    fn any_scope() -> PresentationQosPolicyAccessScopeKind {
        if kani::any() { PresentationQosPolicyAccessScopeKind::Instance } else { PresentationQosPolicyAccessScopeKind::Topic }
    }

    // mathematical order on DurationKind: INFINITE is the top element; finite normalized values (nanosec < 10^9, assumed
    // by any_duration_kind) compare as sec*10^9+nanosec, which for normalized values is the lexicographic order on
    // (sec, nanosec) - that equivalence is the Verus lemma lemma_lex_is_math_order of C14 (a 128-bit symbolic
    // multiplication here makes CBMC time out)
    fn dur_gt(a: DurationKind, b: DurationKind) -> bool {
        match (a, b) {
            (DurationKind::Infinite, DurationKind::Infinite) => false,
            (DurationKind::Infinite, DurationKind::Finite(_)) => true,
            (DurationKind::Finite(_), DurationKind::Infinite) => false,
            (DurationKind::Finite(x), DurationKind::Finite(y)) => x.sec > y.sec || (x.sec == y.sec && x.nanosec > y.nanosec),
        }
    }

    /// All the RxO policies of one (offered, requested) pair.
    #[derive(Clone, Copy)]
    struct Rxo {
        durability: DurabilityQosPolicyKind,
        deadline: DurationKind,
        latency: DurationKind,
        liveliness_kind: LivelinessQosPolicyKind,
        lease: DurationKind,
        reliability: ReliabilityQosPolicyKind,
        dest_order: DestinationOrderQosPolicyKind,
        ownership: OwnershipQosPolicyKind,
        scope: PresentationQosPolicyAccessScopeKind,
        coherent: bool,
        ordered: bool,
    }
    fn any_rxo() -> Rxo {
        Rxo {
            durability: any_durability(),
            deadline: any_duration_kind(),
            latency: any_duration_kind(),
            liveliness_kind: any_liveliness_kind(),
            lease: any_duration_kind(),
            reliability: any_reliability_kind(),
            dest_order: any_dest_order(),
            ownership: any_ownership(),
            scope: any_scope(),
            coherent: kani::any(),
            ordered: kani::any(),
        }
    }

    fn writer_qos(o: &Rxo, repr: Vec<u16>) -> DataWriterQos {
        let mut q = DataWriterQos::const_default();
        q.durability = DurabilityQosPolicy { kind: o.durability };
        q.deadline = DeadlineQosPolicy { period: o.deadline };
        q.latency_budget = LatencyBudgetQosPolicy { duration: o.latency };
        q.liveliness = LivelinessQosPolicy { kind: o.liveliness_kind, lease_duration: o.lease };
        q.reliability.kind = o.reliability;
        q.destination_order = DestinationOrderQosPolicy { kind: o.dest_order };
        q.ownership = OwnershipQosPolicy { kind: o.ownership };
        q.representation = DataRepresentationQosPolicy { value: repr };
        q
    }
    fn reader_qos(r: &Rxo, repr: Vec<u16>) -> DataReaderQos {
        let mut q = DataReaderQos::const_default();
        q.durability = DurabilityQosPolicy { kind: r.durability };
        q.deadline = DeadlineQosPolicy { period: r.deadline };
        q.latency_budget = LatencyBudgetQosPolicy { duration: r.latency };
        q.liveliness = LivelinessQosPolicy { kind: r.liveliness_kind, lease_duration: r.lease };
        q.reliability.kind = r.reliability;
        q.destination_order = DestinationOrderQosPolicy { kind: r.dest_order };
        q.ownership = OwnershipQosPolicy { kind: r.ownership };
        q.representation = DataRepresentationQosPolicy { value: repr };
        q
    }
    fn presentation(p: &Rxo) -> PresentationQosPolicy {
        PresentationQosPolicy { access_scope: p.scope, coherent_access: p.coherent, ordered_access: p.ordered }
    }
    fn discovered_reader(r: &Rxo, repr: Vec<u16>) -> SubscriptionBuiltinTopicData {
        let q = reader_qos(r, repr);
        SubscriptionBuiltinTopicData {
            key: BuiltInTopicKey { value: [0; 16] },
            participant_key: BuiltInTopicKey { value: [0; 16] },
            topic_name: _String { value: String::new() },
            type_name: _String { value: String::new() },
            type_information: None,
            durability: q.durability,
            deadline: q.deadline,
            latency_budget: q.latency_budget,
            liveliness: q.liveliness,
            reliability: q.reliability,
            ownership: q.ownership,
            destination_order: q.destination_order,
            user_data: q.user_data,
            time_based_filter: q.time_based_filter,
            presentation: presentation(r),
            partition: PartitionQosPolicy::const_default(),
            topic_data: TopicDataQosPolicy::const_default(),
            group_data: GroupDataQosPolicy::const_default(),
            representation: q.representation,
            type_consistency: q.type_consistency,
        }
    }
    fn discovered_writer(o: &Rxo, repr: Vec<u16>) -> PublicationBuiltinTopicData {
        let q = writer_qos(o, repr);
        PublicationBuiltinTopicData {
            key: BuiltInTopicKey { value: [0; 16] },
            participant_key: BuiltInTopicKey { value: [0; 16] },
            topic_name: _String { value: String::new() },
            type_name: _String { value: String::new() },
            type_information: None,
            durability: q.durability,
            deadline: q.deadline,
            latency_budget: q.latency_budget,
            liveliness: q.liveliness,
            reliability: q.reliability,
            lifespan: q.lifespan,
            user_data: q.user_data,
            ownership: q.ownership,
            ownership_strength: q.ownership_strength,
            destination_order: q.destination_order,
            presentation: presentation(o),
            partition: PartitionQosPolicy::const_default(),
            topic_data: TopicDataQosPolicy::const_default(),
            group_data: GroupDataQosPolicy::const_default(),
            representation: q.representation,
        }
    }

    // ---------- one symbolic RxO row per obligation; every other row at a concrete, compatible value
    const ROW_DURABILITY: u8 = 0;
    const ROW_DEADLINE: u8 = 1;
    const ROW_LATENCY: u8 = 2;
    const ROW_LIVELINESS: u8 = 3;
    const ROW_KINDS: u8 = 4; // RELIABILITY, DESTINATION_ORDER, OWNERSHIP (pure enum rows)
    const ROW_PRESENTATION: u8 = 5;

    fn base_rxo() -> Rxo {
        Rxo {
            durability: DurabilityQosPolicyKind::Volatile, deadline: DurationKind::Infinite, latency: DurationKind::Finite(Duration::new(0, 0)),
            liveliness_kind: LivelinessQosPolicyKind::Automatic, lease: DurationKind::Infinite,
            reliability: ReliabilityQosPolicyKind::Reliable, dest_order: DestinationOrderQosPolicyKind::ByReceptionTimestamp,
            ownership: OwnershipQosPolicyKind::Shared, scope: PresentationQosPolicyAccessScopeKind::Instance, coherent: false, ordered: false,
        }
    }
    fn any_row(row: u8) -> Rxo {
        let mut x = base_rxo();
        match row {
            ROW_DURABILITY => x.durability = any_durability(),
            ROW_DEADLINE => x.deadline = any_duration_kind(),
            ROW_LATENCY => x.latency = any_duration_kind(),
            ROW_LIVELINESS => { x.liveliness_kind = any_liveliness_kind(); x.lease = any_duration_kind(); }
            ROW_KINDS => { x.reliability = any_reliability_kind(); x.dest_order = any_dest_order(); x.ownership = any_ownership(); }
            _ => { x.scope = any_scope(); x.coherent = kani::any(); x.ordered = kani::any(); }
        }
        x
    }

    /// The DDS 1.4 RxO table (2.2.3) for one row: is the policy incompatible for (offered o, requested r)?
    fn table_incompatible(id: QosPolicyId, o: &Rxo, r: &Rxo) -> bool {
        if id == DURABILITY_QOS_POLICY_ID {
            durability_rank(o.durability) < durability_rank(r.durability)
        } else if id == DEADLINE_QOS_POLICY_ID {
            dur_gt(o.deadline, r.deadline)
        } else if id == LATENCYBUDGET_QOS_POLICY_ID {
            dur_gt(o.latency, r.latency)
        } else if id == LIVELINESS_QOS_POLICY_ID {
            // kind and lease duration SEPARATELY (statement of C15)
            liveliness_rank(o.liveliness_kind) < liveliness_rank(r.liveliness_kind) || dur_gt(o.lease, r.lease)
        } else if id == RELIABILITY_QOS_POLICY_ID {
            o.reliability == ReliabilityQosPolicyKind::BestEffort && r.reliability == ReliabilityQosPolicyKind::Reliable
        } else if id == DESTINATIONORDER_QOS_POLICY_ID {
            o.dest_order == DestinationOrderQosPolicyKind::ByReceptionTimestamp && r.dest_order == DestinationOrderQosPolicyKind::BySourceTimestamp
        } else if id == OWNERSHIP_QOS_POLICY_ID {
            o.ownership != r.ownership
        } else if id == PRESENTATION_QOS_POLICY_ID {
            (o.scope == PresentationQosPolicyAccessScopeKind::Instance && r.scope == PresentationQosPolicyAccessScopeKind::Topic)
                || (r.coherent && !o.coherent)
                || (r.ordered && !o.ordered)
        } else {
            false
        }
    }


    fn check_id(l: &Vec<QosPolicyId>, id: QosPolicyId, o: &Rxo, r: &Rxo) {
        let n = (if l.len() > 0 && l[0] == id { 1 } else { 0 })
            + (if l.len() > 1 && l[1] == id { 1 } else { 0 })
            + (if l.len() > 2 && l[2] == id { 1 } else { 0 });
        let want = if table_incompatible(id, o, r) { 1 } else { 0 };
        assert!(n == want, "C15: a policy id is in the returned list exactly once iff the DDS RxO table says the (offered, requested) pair is incompatible for it");
    }

    /// l names exactly the ids the table calls incompatible, each once, in any order (<= 3 rows are symbolic at a time)
    fn check_list(l: &Vec<QosPolicyId>, o: &Rxo, r: &Rxo) {
        assert!(l.len() <= 3);
        check_id(l, DURABILITY_QOS_POLICY_ID, o, r);
        check_id(l, PRESENTATION_QOS_POLICY_ID, o, r);
        check_id(l, DEADLINE_QOS_POLICY_ID, o, r);
        check_id(l, LATENCYBUDGET_QOS_POLICY_ID, o, r);
        check_id(l, LIVELINESS_QOS_POLICY_ID, o, r);
        check_id(l, RELIABILITY_QOS_POLICY_ID, o, r);
        check_id(l, DESTINATIONORDER_QOS_POLICY_ID, o, r);
        check_id(l, OWNERSHIP_QOS_POLICY_ID, o, r);
        check_id(l, DATA_REPRESENTATION_QOS_POLICY_ID, o, r);
    }

    fn check_writer_side(row: u8) {
        let o = any_row(row);
        let r = any_row(row);
        let wq = writer_qos(&o, Vec::new());
        let mut pq = PublisherQos::const_default();
        pq.presentation = presentation(&o);
        let dr = discovered_reader(&r, Vec::new());
        let l = get_discovered_reader_incompatible_qos_policy_list(&wq, &dr, &pq);
        check_list(&l, &o, &r);
        kani::cover!(l.len() == 0);
        kani::cover!(l.len() == 1);
        core::mem::forget(l);
        core::mem::forget(wq);
        core::mem::forget(dr);
        core::mem::forget(pq);
    }

    fn check_reader_side(row: u8) {
        let o = any_row(row);
        let r = any_row(row);
        let rq = reader_qos(&r, Vec::new());
        let mut sq = SubscriberQos::const_default();
        sq.presentation = presentation(&r);
        let dw = discovered_writer(&o, Vec::new());
        let de = DataReaderEntity::new(InstanceHandle::new([0; 16]), rq, String::new(), NoReader(Vec::new()));
        let l = get_discovered_writer_incompatible_qos_policy_list(&de, &dw, &sq);
        check_list(&l, &o, &r);
        kani::cover!(l.len() == 0);
        kani::cover!(l.len() == 1);
        core::mem::forget(l);
        core::mem::forget(de);
        core::mem::forget(dw);
        core::mem::forget(sq);
    }

    /// Writer side (get_discovered_reader_incompatible_qos_policy_list), row DURABILITY: incompatible iff offered kind < requested kind (VOLATILE < TRANSIENT_LOCAL < TRANSIENT < PERSISTENT); all 4x4 kinds. The returned list names a policy exactly once iff the DDS RxO table says it is
    /// incompatible and names nothing else; every other row is held at a concrete compatible value.
    /// @props C15
    /// @kind proof
    /// @tier quick
    /// @bounds none on this row (full domain of both sides); other rows concrete-compatible (rows are independent straight-line tests in the function); representation lists empty; string/octet policies empty (not read)
    /// @fn get_discovered_reader_incompatible_qos_policy_list, <DurabilityQosPolicy as PartialOrd>::partial_cmp
    #[cfg_attr(kani, kani::proof)]
    fn c15_writer_side_durability() {
        check_writer_side(ROW_DURABILITY);
    }

    /// Writer side (get_discovered_reader_incompatible_qos_policy_list), row DEADLINE: incompatible iff offered period > requested period in the mathematical order with INFINITE on top; all normalized durations on both sides. The returned list names a policy exactly once iff the DDS RxO table says it is
    /// incompatible and names nothing else; every other row is held at a concrete compatible value.
    /// @props C15
    /// @kind proof
    /// @tier quick
    /// @bounds none on this row (full domain of both sides); other rows concrete-compatible (rows are independent straight-line tests in the function); representation lists empty; string/octet policies empty (not read)
    /// @fn get_discovered_reader_incompatible_qos_policy_list, <DurationKind as PartialOrd>::partial_cmp
    #[cfg_attr(kani, kani::proof)]
    fn c15_writer_side_deadline() {
        check_writer_side(ROW_DEADLINE);
    }

    /// Writer side (get_discovered_reader_incompatible_qos_policy_list), row LATENCY_BUDGET: incompatible iff offered duration > requested duration; all normalized durations on both sides. The returned list names a policy exactly once iff the DDS RxO table says it is
    /// incompatible and names nothing else; every other row is held at a concrete compatible value.
    /// @props C15
    /// @kind proof
    /// @tier quick
    /// @bounds none on this row (full domain of both sides); other rows concrete-compatible (rows are independent straight-line tests in the function); representation lists empty; string/octet policies empty (not read)
    /// @fn get_discovered_reader_incompatible_qos_policy_list, <DurationKind as PartialOrd>::partial_cmp
    #[cfg_attr(kani, kani::proof)]
    fn c15_writer_side_latency_budget() {
        check_writer_side(ROW_LATENCY);
    }

    /// Writer side (get_discovered_reader_incompatible_qos_policy_list), row LIVELINESS: incompatible iff offered kind < requested kind (AUTOMATIC < MANUAL_BY_PARTICIPANT < MANUAL_BY_TOPIC) OR offered lease_duration > requested lease_duration - the two compared separately, all 3x3 kinds x all normalized lease durations. The returned list names a policy exactly once iff the DDS RxO table says it is
    /// incompatible and names nothing else; every other row is held at a concrete compatible value.
    /// @props C15
    /// @kind proof
    /// @tier quick
    /// @bounds none on this row (full domain of both sides); other rows concrete-compatible (rows are independent straight-line tests in the function); representation lists empty; string/octet policies empty (not read)
    /// @fn get_discovered_reader_incompatible_qos_policy_list, <LivelinessQosPolicy as PartialOrd>::partial_cmp, <DurationKind as PartialOrd>::partial_cmp
    #[cfg_attr(kani, kani::proof)]
    fn c15_writer_side_liveliness() {
        check_writer_side(ROW_LIVELINESS);
    }

    /// Writer side (get_discovered_reader_incompatible_qos_policy_list), row RELIABILITY (offered BEST_EFFORT vs requested RELIABLE), DESTINATION_ORDER (offered BY_RECEPTION vs requested BY_SOURCE), OWNERSHIP (kinds differ): all 2^6 combinations, the three verdicts independent of each other. The returned list names a policy exactly once iff the DDS RxO table says it is
    /// incompatible and names nothing else; every other row is held at a concrete compatible value.
    /// @props C15
    /// @kind proof
    /// @tier quick
    /// @bounds none on this row (full domain of both sides); other rows concrete-compatible (rows are independent straight-line tests in the function); representation lists empty; string/octet policies empty (not read)
    /// @fn get_discovered_reader_incompatible_qos_policy_list, <ReliabilityQosPolicyKind as PartialOrd>::partial_cmp, <DestinationOrderQosPolicyKind as PartialOrd>::partial_cmp
    #[cfg_attr(kani, kani::proof)]
    fn c15_writer_side_reliability_destorder_ownership() {
        check_writer_side(ROW_KINDS);
    }

    /// Writer side (get_discovered_reader_incompatible_qos_policy_list), row PRESENTATION: incompatible iff offered access_scope < requested access_scope, or coherent_access requested and not offered, or ordered_access requested and not offered; all scope/flag combinations (2x2 scopes x 2^4 flags), including a writer that offers a flag the reader did not request (compatible). The returned list names a policy exactly once iff the DDS RxO table says it is
    /// incompatible and names nothing else; every other row is held at a concrete compatible value.
    /// @props C15
    /// @kind proof
    /// @tier quick
    /// @bounds none on this row (full domain of both sides); other rows concrete-compatible (rows are independent straight-line tests in the function); representation lists empty; string/octet policies empty (not read)
    /// @fn get_discovered_reader_incompatible_qos_policy_list, <PresentationQosPolicyAccessScopeKind as PartialOrd>::partial_cmp
    #[cfg_attr(kani, kani::proof)]
    fn c15_writer_side_presentation() {
        check_writer_side(ROW_PRESENTATION);
    }

    /// Reader side (get_discovered_writer_incompatible_qos_policy_list), row DURABILITY: incompatible iff offered kind < requested kind (VOLATILE < TRANSIENT_LOCAL < TRANSIENT < PERSISTENT); all 4x4 kinds. The returned list names a policy exactly once iff the DDS RxO table says it is
    /// incompatible and names nothing else; every other row is held at a concrete compatible value.
    /// @props C15
    /// @kind proof
    /// @tier quick
    /// @bounds none on this row (full domain of both sides); other rows concrete-compatible (rows are independent straight-line tests in the function); representation lists empty; string/octet policies empty (not read)
    /// @fn get_discovered_writer_incompatible_qos_policy_list, <DurabilityQosPolicy as PartialOrd>::partial_cmp
    #[cfg_attr(kani, kani::proof)]
    fn c15_reader_side_durability() {
        check_reader_side(ROW_DURABILITY);
    }

    /// Reader side (get_discovered_writer_incompatible_qos_policy_list), row DEADLINE: incompatible iff offered period > requested period in the mathematical order with INFINITE on top; all normalized durations on both sides. The returned list names a policy exactly once iff the DDS RxO table says it is
    /// incompatible and names nothing else; every other row is held at a concrete compatible value.
    /// @props C15
    /// @kind proof
    /// @tier quick
    /// @bounds none on this row (full domain of both sides); other rows concrete-compatible (rows are independent straight-line tests in the function); representation lists empty; string/octet policies empty (not read)
    /// @fn get_discovered_writer_incompatible_qos_policy_list, <DurationKind as PartialOrd>::partial_cmp
    #[cfg_attr(kani, kani::proof)]
    fn c15_reader_side_deadline() {
        check_reader_side(ROW_DEADLINE);
    }

    /// Reader side (get_discovered_writer_incompatible_qos_policy_list), row LATENCY_BUDGET: incompatible iff offered duration > requested duration; all normalized durations on both sides. The returned list names a policy exactly once iff the DDS RxO table says it is
    /// incompatible and names nothing else; every other row is held at a concrete compatible value.
    /// @props C15
    /// @kind proof
    /// @tier quick
    /// @bounds none on this row (full domain of both sides); other rows concrete-compatible (rows are independent straight-line tests in the function); representation lists empty; string/octet policies empty (not read)
    /// @fn get_discovered_writer_incompatible_qos_policy_list, <DurationKind as PartialOrd>::partial_cmp
    #[cfg_attr(kani, kani::proof)]
    fn c15_reader_side_latency_budget() {
        check_reader_side(ROW_LATENCY);
    }

    /// Reader side (get_discovered_writer_incompatible_qos_policy_list), row LIVELINESS: incompatible iff offered kind < requested kind (AUTOMATIC < MANUAL_BY_PARTICIPANT < MANUAL_BY_TOPIC) OR offered lease_duration > requested lease_duration - the two compared separately, all 3x3 kinds x all normalized lease durations. The returned list names a policy exactly once iff the DDS RxO table says it is
    /// incompatible and names nothing else; every other row is held at a concrete compatible value.
    /// @props C15
    /// @kind proof
    /// @tier quick
    /// @bounds none on this row (full domain of both sides); other rows concrete-compatible (rows are independent straight-line tests in the function); representation lists empty; string/octet policies empty (not read)
    /// @fn get_discovered_writer_incompatible_qos_policy_list, <LivelinessQosPolicy as PartialOrd>::partial_cmp, <DurationKind as PartialOrd>::partial_cmp
    #[cfg_attr(kani, kani::proof)]
    fn c15_reader_side_liveliness() {
        check_reader_side(ROW_LIVELINESS);
    }

    /// Reader side (get_discovered_writer_incompatible_qos_policy_list), row RELIABILITY (offered BEST_EFFORT vs requested RELIABLE), DESTINATION_ORDER (offered BY_RECEPTION vs requested BY_SOURCE), OWNERSHIP (kinds differ): all 2^6 combinations, the three verdicts independent of each other. The returned list names a policy exactly once iff the DDS RxO table says it is
    /// incompatible and names nothing else; every other row is held at a concrete compatible value.
    /// @props C15
    /// @kind proof
    /// @tier quick
    /// @bounds none on this row (full domain of both sides); other rows concrete-compatible (rows are independent straight-line tests in the function); representation lists empty; string/octet policies empty (not read)
    /// @fn get_discovered_writer_incompatible_qos_policy_list, <ReliabilityQosPolicyKind as PartialOrd>::partial_cmp, <DestinationOrderQosPolicyKind as PartialOrd>::partial_cmp
    #[cfg_attr(kani, kani::proof)]
    fn c15_reader_side_reliability_destorder_ownership() {
        check_reader_side(ROW_KINDS);
    }

    /// Reader side (get_discovered_writer_incompatible_qos_policy_list), row PRESENTATION: incompatible iff offered access_scope < requested access_scope, or coherent_access requested and not offered, or ordered_access requested and not offered; all scope/flag combinations (2x2 scopes x 2^4 flags), including a writer that offers a flag the reader did not request (compatible). The returned list names a policy exactly once iff the DDS RxO table says it is
    /// incompatible and names nothing else; every other row is held at a concrete compatible value.
    /// @props C15
    /// @kind proof
    /// @tier quick
    /// @bounds none on this row (full domain of both sides); other rows concrete-compatible (rows are independent straight-line tests in the function); representation lists empty; string/octet policies empty (not read)
    /// @fn get_discovered_writer_incompatible_qos_policy_list, <PresentationQosPolicyAccessScopeKind as PartialOrd>::partial_cmp
    #[cfg_attr(kani, kani::proof)]
    fn c15_reader_side_presentation() {
        check_reader_side(ROW_PRESENTATION);
    }

    fn any_repr_list() -> Vec<u16> {
        // 0, 1 or 2 entries over {XCDR1 = 0, XML = 1, XCDR2 = 2, other}
        let n: u8 = kani::any();
        kani::assume(n <= 2);
        let a: u16 = kani::any();
        let b: u16 = kani::any();
        match n {
            0 => Vec::new(),
            1 => { let mut v = Vec::new(); v.push(a); v }
            _ => { let mut v = Vec::new(); v.push(a); v.push(b); v }
        }
    }
    fn repr_incompatible(offered: &Vec<u16>, requested: &Vec<u16>) -> bool {
        // XTypes 7.6.3.1.2: the writer offers its first entry (empty = XCDR1); the reader accepts any entry of its list
        // (empty = [XCDR1])
        let off = if offered.len() == 0 { 0u16 } else { offered[0] };
        if requested.len() == 0 {
            off != 0
        } else {
            let mut found = false;
            let mut i = 0;
            while i < requested.len() {
                if requested[i] == off { found = true; }
                i += 1;
            }
            !found
        }
    }

    /// DATA_REPRESENTATION row, both sides: with every other policy at its (compatible) default, the id is reported
    /// exactly once iff the writer's first offered representation (XCDR1 if its list is empty) is not in the reader's
    /// list (which means [XCDR1] if empty); and both functions agree.
    /// @props C15
    /// @kind bounded
    /// @tier quick
    /// @bounds representation lists of length <= 2 with arbitrary u16 entries
    /// @cbmc --unwind 4 --unwindset memcmp.0:18
    /// @fn get_discovered_reader_incompatible_qos_policy_list, get_discovered_writer_incompatible_qos_policy_list
    #[cfg_attr(kani, kani::proof)]
    fn c15_representation_both_sides() {
        let off = any_repr_list();
        let req = any_repr_list();
        let expect = repr_incompatible(&off, &req);
        let mut wq = DataWriterQos::const_default();
        wq.representation = DataRepresentationQosPolicy { value: off.clone() };
        let mut rq = DataReaderQos::const_default();
        rq.representation = DataRepresentationQosPolicy { value: req.clone() };
        // the two defaults differ in reliability (writer RELIABLE, reader BEST_EFFORT): compatible
        let base = base_rxo();
        let dr = discovered_reader(&base, req);
        let dw = discovered_writer(&base, off);
        let pq = PublisherQos::const_default();
        let sq = SubscriberQos::const_default();
        let wq2 = writer_qos(&base, wq.representation.value.clone());
        let l1 = get_discovered_reader_incompatible_qos_policy_list(&wq2, &dr, &pq);
        assert!(l1.len() == if expect { 1 } else { 0 }, "C15 DATA_REPRESENTATION (writer side): reported iff first offered not in requested");
        assert!(!expect || l1[0] == DATA_REPRESENTATION_QOS_POLICY_ID);
        let de = DataReaderEntity::new(InstanceHandle::new([0; 16]), reader_qos(&base, rq.representation.value.clone()), String::new(), NoReader(Vec::new()));
        let l2 = get_discovered_writer_incompatible_qos_policy_list(&de, &dw, &sq);
        assert!(l2.len() == if expect { 1 } else { 0 }, "C15 DATA_REPRESENTATION (reader side): same verdict as the writer side");
        assert!(!expect || l2[0] == DATA_REPRESENTATION_QOS_POLICY_ID);
        kani::cover!(expect);
        kani::cover!(!expect);
        core::mem::forget(l1);
        core::mem::forget(l2);
        core::mem::forget(de);
        core::mem::forget(dr);
        core::mem::forget(dw);
        core::mem::forget(wq);
        core::mem::forget(wq2);
        core::mem::forget(rq);
    }
