    // @unit name=submessages file=dds/src/rtps_messages/overall_structure.rs unwind=7 unwindset=memcmp.0:70 loops=extend_with:34,SequenceNumberSet:36,FragmentNumberSet:36
    // Child module of overall_structure.rs (C06, C07, C08): submessage-level obligations through the REAL submessage writer
    // (dyn Submessage::write_submessage_into_bytes: Cursor<Vec<u8>>, header written after the elements with the length
    // back-patched), the REAL SubmessageHeaderRead decoder and the REAL per-kind decoders.  Every field value is symbolic.
    // @assume the kind dispatch and the submessage loop of RtpsMessageRead::try_from are NOT under contract: even one symbolic HEARTBEAT through the whole-message writer and reader does not finish in CBMC within 20 min (12 inlined decoders per loop iteration)

    use crate::rtps_messages::submessage_elements::{Data, FragmentNumberSet, ParameterList, SequenceNumberSet, SerializedDataFragment};
    use crate::rtps_messages::types::Time;

    fn any_entity_id() -> EntityId {
        EntityId::new(kani::any(), kani::any())
    }
    /// a set with an arbitrary base and the two members base+1 and base+5 (structure concrete: num_bits = 6, one bitmap word)
    fn any_sn_set() -> SequenceNumberSet {
        let base: i64 = kani::any();
        kani::assume(base >= 1 && base <= i64::MAX - 64);
        SequenceNumberSet::new(base, [base + 1, base + 5])
    }
    /// submessage-level: write header + elements with the real writer, read the header back with the real header decoder
    fn sub_bytes(sub: &(dyn Submessage + Send)) -> Vec<u8> {
        write_submessage_into_bytes_vec(sub)
    }
    /// returns (decoded header, position of the body) after checking kind and length
    fn read_header(bytes: &Vec<u8>, kind: u8) -> SubmessageHeaderRead {
        let mut d: &[u8] = bytes;
        match SubmessageHeaderRead::try_read_from_bytes(&mut d) {
            Ok(h) => {
                assert!(h.submessage_id() == kind, "C08: the header names the submessage kind");
                assert!(h.submessage_length() as usize == bytes.len() - 4, "C08: the header length is the number of bytes that follow");
                h
            }
            Err(_) => {
                assert!(false, "C08: a written header always decodes");
                loop {}
            }
        }
    }

    /// C08: ACKNACK submessage round trip (real writer incl. header and length back-patching, real header decoder, real
    /// ACKNACK decoder), every field value (final flag, entity ids, set base, one arbitrary member or none, count).
    /// @props C08
    /// @kind bounded
    /// @tier extended
    /// @timeout 2400
    /// @bounds sequence number set {base+1, base+5} with arbitrary base
    /// @fn write_submessage_into_bytes_vec, SubmessageHeaderRead::try_read_from_bytes, AckNackSubmessage::try_from_bytes
    #[cfg_attr(kani, kani::proof)]
    fn c08_acknack_submessage_round_trip() {
        let x = AckNackSubmessage::new(kani::any(), any_entity_id(), any_entity_id(), any_sn_set(), kani::any());
        let bytes = sub_bytes(&x);
        let h = read_header(&bytes, ACKNACK);
        let y = AckNackSubmessage::try_from_bytes(&h, &bytes[4..]);
        assert!(matches!(&y, Ok(y) if *y == x), "C08: decode(encode(ACKNACK)) == ACKNACK");
        core::mem::forget(y);
        core::mem::forget(bytes);
    }

    /// C08: GAP submessage round trip, every field value.
    /// @props C08
    /// @kind bounded
    /// @tier extended
    /// @timeout 2400
    /// @bounds gap list {base+1, base+5} with arbitrary base
    /// @fn write_submessage_into_bytes_vec, GapSubmessage::try_from_bytes
    #[cfg_attr(kani, kani::proof)]
    fn c08_gap_submessage_round_trip() {
        let x = GapSubmessage::new(any_entity_id(), any_entity_id(), kani::any(), any_sn_set());
        let bytes = sub_bytes(&x);
        let h = read_header(&bytes, GAP);
        let y = GapSubmessage::try_from_bytes(&h, &bytes[4..]);
        assert!(matches!(&y, Ok(y) if *y == x), "C08: decode(encode(GAP)) == GAP");
        core::mem::forget(y);
        core::mem::forget(bytes);
    }

    /// C08: NACK_FRAG submessage round trip, every field value (fragment number set with at most one member).
    /// @props C08
    /// @kind bounded
    /// @tier extended
    /// @timeout 2400
    /// @bounds fragment number set {base+1, base+5} with arbitrary base <= u32::MAX - 64
    /// @fn write_submessage_into_bytes_vec, NackFragSubmessage::try_from_bytes
    #[cfg_attr(kani, kani::proof)]
    fn c08_nack_frag_submessage_round_trip() {
        let base: u32 = kani::any();
        kani::assume(base <= u32::MAX - 64);
        let set = FragmentNumberSet::new(base, [base + 1, base + 5]);
        let x = NackFragSubmessage::new(any_entity_id(), any_entity_id(), kani::any(), set, kani::any());
        let bytes = sub_bytes(&x);
        let h = read_header(&bytes, NACK_FRAG);
        let y = NackFragSubmessage::try_from_bytes(&h, &bytes[4..]);
        assert!(matches!(&y, Ok(y) if *y == x), "C08: decode(encode(NACK_FRAG)) == NACK_FRAG");
        core::mem::forget(y);
        core::mem::forget(bytes);
    }

    /// C08: INFO_TS and INFO_DST submessage round trips, every field value (invalidate flag, seconds, fraction; guid prefix).
    /// @props C08
    /// @kind proof
    /// @tier quick
    /// @timeout 1200
    /// @fn InfoTimestampSubmessage::try_from_bytes, InfoDestinationSubmessage::try_from_bytes, write_submessage_into_bytes_vec
    #[cfg_attr(kani, kani::proof)]
    fn c08_info_ts_and_info_dst_submessage_round_trip() {
        let mut i = 0;
        while i < 2 {
            let inval = i == 1;
            let ts = InfoTimestampSubmessage::new(inval, Time::new(kani::any(), kani::any()));
            let bytes = sub_bytes(&ts);
            let h = read_header(&bytes, INFO_TS);
            match InfoTimestampSubmessage::try_from_bytes(&h, &bytes[4..]) {
                Ok(y) => {
                    assert!(y.invalidate_flag() == inval, "C08: INFO_TS invalidate flag survives");
                    // with the invalidate flag set no timestamp is on the wire
                    if !inval { assert!(y == ts, "C08: decode(encode(INFO_TS)) == INFO_TS"); }
                }
                Err(_) => assert!(false, "C08: a written INFO_TS always decodes"),
            }
            core::mem::forget(bytes);
            i += 1;
        }
        let dst = InfoDestinationSubmessage::new(kani::any());
        let bytes = sub_bytes(&dst);
        let h = read_header(&bytes, INFO_DST);
        let y = InfoDestinationSubmessage::try_from_bytes(&h, &bytes[4..]);
        assert!(matches!(&y, Ok(y) if *y == dst), "C08: decode(encode(INFO_DST)) == INFO_DST");
        core::mem::forget(bytes);
    }

    /// C08: DATA_FRAG submessage round trip, every flag combination (inline QoS off), ids, sequence number, fragment numbers
    /// and sizes, 4 arbitrary payload bytes.
    /// @props C08
    /// @kind bounded
    /// @tier extended
    /// @timeout 2400
    /// @bounds payload of 4 bytes, empty inline QoS
    /// @fn DataFragSubmessage::try_from_bytes, <DataFragSubmessage as Submessage>::write_submessage_header_into_bytes, write_submessage_into_bytes_vec
    #[cfg_attr(kani, kani::proof)]
    fn c08_data_frag_submessage_round_trip() {
        let payload: [u8; 4] = kani::any();
        let key_flag: bool = kani::any();
        let nsp_flag: bool = kani::any();
        let x = DataFragSubmessage::new(false, nsp_flag, key_flag, any_entity_id(), any_entity_id(), kani::any(), kani::any(),
            kani::any(), kani::any(), kani::any(), ParameterList::empty(), SerializedDataFragment::from(payload.as_slice()));
        let bytes = sub_bytes(&x);
        let h = read_header(&bytes, DATA_FRAG);
        match DataFragSubmessage::try_from_bytes(&h, &bytes[4..]) {
            Ok(y) => {
                assert!(y.key_flag() == key_flag, "C08: key flag survives");
                assert!(y._non_standard_payload_flag() == nsp_flag, "C08: non-standard-payload flag survives");
                assert!(!y.inline_qos_flag());
                assert!(y.writer_sn() == x.writer_sn() && y.fragment_starting_num() == x.fragment_starting_num()
                    && y.fragments_in_submessage() == x.fragments_in_submessage() && y.fragment_size() == x.fragment_size()
                    && y.data_size() == x.data_size() && y.reader_id() == x.reader_id() && y.writer_id() == x.writer_id(),
                    "C08: DATA_FRAG header fields survive");
                let out: &[u8] = y.serialized_payload().as_ref();
                assert!(out.len() == 4 && out[0] == payload[0] && out[1] == payload[1] && out[2] == payload[2] && out[3] == payload[3],
                    "C08: payload bytes survive");
                core::mem::forget(y);
            }
            Err(_) => assert!(false, "C08: a written DATA_FRAG always decodes"),
        }
        core::mem::forget(bytes);
        core::mem::forget(x);
    }

    /// C08: DATA submessage round trip, every flag combination (inline QoS off), ids, sequence number, 4 arbitrary payload bytes.
    /// @props C08
    /// @kind bounded
    /// @tier extended
    /// @timeout 2400
    /// @bounds payload of 4 bytes, empty inline QoS
    /// @fn DataSubmessage::try_from_bytes, write_submessage_into_bytes_vec
    #[cfg_attr(kani, kani::proof)]
    fn c08_data_submessage_round_trip() {
        let payload: [u8; 4] = kani::any();
        let data_flag: bool = kani::any();
        let key_flag: bool = kani::any();
        kani::assume(data_flag != key_flag);
        let x = DataSubmessage::new(false, data_flag, key_flag, kani::any(), any_entity_id(), any_entity_id(), kani::any(),
            ParameterList::empty(), Data::new(alloc::sync::Arc::from(payload.as_slice())));
        let bytes = sub_bytes(&x);
        let h = read_header(&bytes, DATA);
        let y = DataSubmessage::try_from_bytes(&h, &bytes[4..]);
        assert!(matches!(&y, Ok(y) if *y == x), "C08: decode(encode(DATA)) == DATA");
        core::mem::forget(y);
        core::mem::forget(bytes);
        core::mem::forget(x);
    }

    /// C07/C06: DATA decoder total on the offset/length arithmetic.  For EVERY declared submessage length (u16), both byte
    /// orders and EVERY 28-byte remainder of a datagram (extra flags, octetsToInlineQos, ids, sequence number, trailing
    /// bytes), with the inline-QoS, data and key flags clear, DataSubmessage::try_from_bytes returns Ok or Err - never a
    /// panic: an inline-QoS offset beyond the declared end of the submessage but inside the datagram must be an error, not
    /// a slice whose start lies after its end.
    /// @props C07 C06
    /// @kind bounded
    /// @tier quick
    /// @timeout 1200
    /// @bounds 28 bytes after the submessage header; inline-QoS / data / key flags clear (no payload allocation)
    /// @fn DataSubmessage::try_from_bytes
    #[cfg_attr(kani, kani::proof)]
    fn c07_data_submessage_decoder_total() {
        let body: [u8; 28] = kani::any();
        let le: bool = kani::any();
        let h = SubmessageHeaderRead {
            submessage_id: DATA,
            flags: [le, false, false, false, kani::any(), kani::any(), kani::any(), kani::any()],
            submessage_length: kani::any(),
            endianness: if le { Endianness::LittleEndian } else { Endianness::BigEndian },
        };
        let r = DataSubmessage::try_from_bytes(&h, &body);
        kani::cover!(r.is_ok());
        kani::cover!(r.is_err());
        core::mem::forget(r);
    }

    /// C07/C06: DATA_FRAG decoder total, same shape (36 bytes after the header so that the >= 32 branch is taken).
    /// @props C07 C06
    /// @kind bounded
    /// @tier extended
    /// @timeout 1200
    /// @bounds 36 bytes after the submessage header; inline QoS flag clear
    /// @fn DataFragSubmessage::try_from_bytes
    #[cfg_attr(kani, kani::proof)]
    fn c07_data_frag_submessage_decoder_total() {
        let mut hb: [u8; 4] = kani::any();
        hb[1] &= !0b10;
        let body: [u8; 36] = kani::any();
        let mut hs: &[u8] = &hb;
        let h = SubmessageHeaderRead::try_read_from_bytes(&mut hs);
        if let Ok(h) = h {
            let r = DataFragSubmessage::try_from_bytes(&h, &body);
            kani::cover!(r.is_ok());
            kani::cover!(r.is_err());
            core::mem::forget(r);
        }
    }

    /// C07/C06: fixed-size submessage decoders total: for every header and every body of 0..=32 bytes, HEARTBEAT,
    /// HEARTBEAT_FRAG, INFO_TS, INFO_DST, INFO_SRC and PAD decoders return Ok or Err, never panic.
    /// @props C07 C06
    /// @kind bounded
    /// @tier quick
    /// @timeout 1200
    /// @bounds body length 0..=32 bytes
    /// @fn HeartbeatSubmessage::try_from_bytes, HeartbeatFragSubmessage::try_from_bytes, InfoTimestampSubmessage::try_from_bytes, InfoDestinationSubmessage::try_from_bytes, InfoSourceSubmessage::try_from_bytes, PadSubmessage::try_from_bytes
    #[cfg_attr(kani, kani::proof)]
    fn c07_fixed_size_submessage_decoders_total() {
        let hb: [u8; 4] = kani::any();
        let body: [u8; 32] = kani::any();
        let n: usize = kani::any();
        kani::assume(n <= 32);
        let mut hs: &[u8] = &hb;
        if let Ok(h) = SubmessageHeaderRead::try_read_from_bytes(&mut hs) {
            let b = &body[..n];
            core::mem::forget(HeartbeatSubmessage::try_from_bytes(&h, b));
            core::mem::forget(HeartbeatFragSubmessage::try_from_bytes(&h, b));
            core::mem::forget(InfoTimestampSubmessage::try_from_bytes(&h, b));
            core::mem::forget(InfoDestinationSubmessage::try_from_bytes(&h, b));
            core::mem::forget(InfoSourceSubmessage::try_from_bytes(&h, b));
            core::mem::forget(PadSubmessage::try_from_bytes(&h, b));
        }
    }

    /// C08: HEARTBEAT submessage round trip (submessage level: real writer incl. header and length back-patching, real
    /// header decoder, real HEARTBEAT decoder), every field value of a valid HEARTBEAT (first_sn >= 1, last_sn >= first_sn - 1).
    /// @props C08
    /// @kind proof
    /// @tier quick
    /// @timeout 1200
    /// @fn write_submessage_into_bytes_vec, SubmessageHeaderRead::try_read_from_bytes, HeartbeatSubmessage::try_from_bytes
    #[cfg_attr(kani, kani::proof)]
    fn c08_heartbeat_submessage_round_trip() {
        // every VALID heartbeat (RTPS 8.3.7.5.3: first_sn >= 1, last_sn >= first_sn - 1 - what dust-dds writes and what the
        // decoder accepts since the validity repair)
        let first_sn: i64 = kani::any();
        let last_sn: i64 = kani::any();
        kani::assume(first_sn >= 1 && last_sn >= first_sn - 1);
        let x = HeartbeatSubmessage::new(kani::any(), kani::any(), any_entity_id(), any_entity_id(), first_sn, last_sn, kani::any());
        let bytes = sub_bytes(&x);
        assert!(bytes.len() == 4 + 28, "C08: HEARTBEAT is 28 bytes after the header");
        let mut d: &[u8] = &bytes;
        match SubmessageHeaderRead::try_read_from_bytes(&mut d) {
            Ok(h) => {
                assert!(h.submessage_id() == HEARTBEAT && h.submessage_length() == 28, "C08: header names the kind and the length");
                let y = HeartbeatSubmessage::try_from_bytes(&h, d);
                assert!(matches!(&y, Ok(y) if *y == x), "C08: decode(encode(HEARTBEAT)) == HEARTBEAT");
                core::mem::forget(y);
            }
            Err(_) => assert!(false),
        }
        core::mem::forget(bytes);
    }


    /// C08: DATA_FRAG and DATA flag agreement between writer and reader.  For every combination of the inline-QoS, key,
    /// data and non-standard-payload flags, the flag octet produced by the real write_submessage_header_into_bytes, decoded
    /// by the real header decoder and handed to the real try_from_bytes (body: a concrete well-formed 36-byte body without
    /// inline QoS), yields a submessage whose flags are the ones written - writer and reader agree on every flag bit.
    /// @props C08
    /// @kind proof
    /// @tier extended
    /// @timeout 2400
    /// @fn <DataFragSubmessage as Submessage>::write_submessage_header_into_bytes, <DataSubmessage as Submessage>::write_submessage_header_into_bytes, SubmessageHeaderWrite::new, SubmessageHeaderRead::try_read_from_bytes, DataFragSubmessage::try_from_bytes, DataSubmessage::try_from_bytes
    #[cfg_attr(kani, kani::proof)]
    fn c08_data_frag_flags_agree() {
        // body: extraFlags 0, octetsToInlineQos 28 (DATA_FRAG) / 16 (DATA), ids 0, sn 0, frag fields, 4 payload bytes
        let mut body_frag = [0u8; 36];
        body_frag[2] = 28;
        let mut body_data = [0u8; 24];
        body_data[2] = 16;
        let key_flag: bool = kani::any();
        let nsp_flag: bool = kani::any();
        let data_flag: bool = kani::any();
        {
            let x = DataFragSubmessage::new(false, nsp_flag, key_flag, EntityId::new([0, 0, 0], 0), EntityId::new([0, 0, 0], 0), 0, 1, 1, 4, 4,
                ParameterList::empty(), SerializedDataFragment::from([0u8, 0, 0, 0].as_slice()));
            let mut hv: Vec<u8> = Vec::new();
            x.write_submessage_header_into_bytes(36, &mut hv);
            assert!(hv.len() == 4);
            let mut d: &[u8] = &hv;
            match SubmessageHeaderRead::try_read_from_bytes(&mut d) {
                Ok(h) => {
                    assert!(h.submessage_id() == DATA_FRAG && h.submessage_length() == 36);
                    // same flags / byte order as decoded, length as a constant (keeps the payload allocation concrete)
                    let h = SubmessageHeaderRead { submessage_id: DATA_FRAG, flags: h.flags, submessage_length: 36, endianness: h.endianness };
                    match DataFragSubmessage::try_from_bytes(&h, &body_frag) {
                        Ok(y) => {
                            assert!(y.key_flag() == key_flag, "C08: DATA_FRAG key flag written == key flag read");
                            assert!(y._non_standard_payload_flag() == nsp_flag, "C08: DATA_FRAG non-standard-payload flag written == read");
                            assert!(!y.inline_qos_flag(), "C08: DATA_FRAG inline-QoS flag written == read");
                            core::mem::forget(y);
                        }
                        Err(_) => assert!(false, "C08: a well-formed DATA_FRAG body decodes"),
                    }
                }
                Err(_) => assert!(false),
            }
            core::mem::forget(hv);
            core::mem::forget(x);
        }
    }

    /// C08: DATA flag agreement between writer and reader (same construction as for DATA_FRAG).
    /// @props C08
    /// @kind proof
    /// @tier extended
    /// @timeout 2400
    /// @fn <DataSubmessage as Submessage>::write_submessage_header_into_bytes, SubmessageHeaderWrite::new, SubmessageHeaderRead::try_read_from_bytes, DataSubmessage::try_from_bytes
    #[cfg_attr(kani, kani::proof)]
    fn c08_data_flags_agree() {
        // body: extraFlags 0, octetsToInlineQos 28 (DATA_FRAG) / 16 (DATA), ids 0, sn 0, frag fields, 4 payload bytes
        let mut body_frag = [0u8; 36];
        body_frag[2] = 28;
        let mut body_data = [0u8; 24];
        body_data[2] = 16;
        let key_flag: bool = kani::any();
        let nsp_flag: bool = kani::any();
        let data_flag: bool = kani::any();
        {
            let x = DataSubmessage::new(false, data_flag, key_flag, nsp_flag, EntityId::new([0, 0, 0], 0), EntityId::new([0, 0, 0], 0), 0,
                ParameterList::empty(), Data::new(alloc::sync::Arc::from([0u8, 0, 0, 0].as_slice())));
            let mut hv: Vec<u8> = Vec::new();
            x.write_submessage_header_into_bytes(24, &mut hv);
            let mut d: &[u8] = &hv;
            match SubmessageHeaderRead::try_read_from_bytes(&mut d) {
                Ok(h) => {
                    assert!(h.submessage_id() == DATA && h.submessage_length() == 24);
                    let h = SubmessageHeaderRead { submessage_id: DATA, flags: h.flags, submessage_length: 24, endianness: h.endianness };
                    match DataSubmessage::try_from_bytes(&h, &body_data) {
                        Ok(y) => {
                            assert!(y._data_flag() == data_flag && y._key_flag() == key_flag && !y._inline_qos_flag(),
                                "C08: DATA flags written == flags read");
                            core::mem::forget(y);
                        }
                        Err(_) => assert!(false, "C08: a well-formed DATA body decodes"),
                    }
                }
                Err(_) => assert!(false),
            }
            core::mem::forget(hv);
            core::mem::forget(x);
        }
    }

    /// C06/C07: the HEARTBEAT decoder establishes the validity the handlers rely on.  For every header and every 28-byte
    /// body, both byte orders: Ok or Err without panic, and on Ok first_sn >= 1 and last_sn >= first_sn - 1 (RTPS
    /// 8.3.7.5.3) - so that the reader-side bookkeeping fed by a HEARTBEAT (lost_changes_update(first_sn), then
    /// available_changes_max() = max(first_sn - 1, ..)) cannot overflow: the precondition wf(proxy) of the Verus contracts
    /// (first_available_seq_num > i64::MIN) is established at the boundary where the value enters.
    /// @props C06 C07 C01
    /// @kind proof
    /// @tier quick
    /// @fn HeartbeatSubmessage::try_from_bytes
    #[cfg_attr(kani, kani::proof)]
    fn c06_heartbeat_decoder_establishes_validity() {
        let body: [u8; 28] = kani::any();
        let le: bool = kani::any();
        let h = SubmessageHeaderRead {
            submessage_id: HEARTBEAT,
            flags: [le, kani::any(), kani::any(), kani::any(), kani::any(), kani::any(), kani::any(), kani::any()],
            submessage_length: 28,
            endianness: if le { Endianness::LittleEndian } else { Endianness::BigEndian },
        };
        let r = HeartbeatSubmessage::try_from_bytes(&h, &body);
        if let Ok(y) = &r {
            assert!(y.first_sn() >= 1, "C06: a decoded HEARTBEAT has first_sn >= 1");
            assert!(y.last_sn() >= y.first_sn() - 1, "C06: a decoded HEARTBEAT has last_sn >= first_sn - 1");
        }
        kani::cover!(r.is_ok());
        kani::cover!(r.is_err());
        core::mem::forget(r);
    }

    /// C06/C07: the DATA_FRAG decoder rejects fragment_size == 0.  For every 36-byte little-endian body (inline-QoS offset
    /// 28, inline-QoS flag clear; every other field arbitrary): Ok or Err without panic, and on Ok fragment_size != 0 - the
    /// precondition of total_fragments_expected (Verus contract in frag_arith_v) and of div_ceil in the NACK_FRAG
    /// generation, so that a buffered fragment can never make the reassembly divide by zero.
    /// @props C06 C07 C05
    /// @kind bounded
    /// @tier quick
    /// @timeout 1200
    /// @bounds 36-byte body, little endian, octetsToInlineQos = 28, inline-QoS flag clear (keeps the payload length concrete)
    /// @fn DataFragSubmessage::try_from_bytes
    #[cfg_attr(kani, kani::proof)]
    fn c06_data_frag_decoder_rejects_zero_fragment_size() {
        let mut body: [u8; 36] = kani::any();
        body[2] = 28;
        body[3] = 0;
        let h = SubmessageHeaderRead {
            submessage_id: DATA_FRAG,
            flags: [true, false, kani::any(), kani::any(), kani::any(), kani::any(), kani::any(), kani::any()],
            submessage_length: 36,
            endianness: Endianness::LittleEndian,
        };
        let r = DataFragSubmessage::try_from_bytes(&h, &body);
        if let Ok(y) = &r {
            assert!(y.fragment_size() != 0, "C06: a decoded DATA_FRAG never has fragment_size 0");
        }
        kani::cover!(r.is_ok());
        kani::cover!(r.is_err());
        core::mem::forget(r);
    }
