    // @unit name=writer_proxy file=dds/src/rtps/writer_proxy.rs
    // Child module of dds/src/rtps/writer_proxy.rs (C01, C02, C04, C05, C06).  Private fields are visible here, so
    // the proxy state is a struct literal with fully symbolic counters (an arbitrary state, not only a reachable one).
    // @assume wf(proxy): first_available_seq_num > i64::MIN, highest_received_change_sn < i64::MAX (see writer_proxy_v)

    use crate::rtps_messages::submessage_elements::{ParameterList, SerializedDataFragment};

    fn any_proxy_with(frag_buffer: Vec<DataFragSubmessage>) -> RtpsWriterProxy {
        let first: i64 = kani::any();
        let last: i64 = kani::any();
        let highest: i64 = kani::any();
        kani::assume(first > i64::MIN && highest < i64::MAX);
        let hb: i32 = kani::any();
        RtpsWriterProxy {
            remote_writer_guid: Guid::new([3; 12], EntityId::new([1, 0, 0], 2)),
            unicast_locator_list: Vec::new(),
            multicast_locator_list: Vec::new(),
            remote_group_entity_id: EntityId::new([0, 0, 0], 0),
            first_available_seq_num: first,
            last_available_seq_num: last,
            highest_received_change_sn: highest,
            must_send_acknacks: false,
            last_received_heartbeat_count: hb,
            last_received_heartbeat_frag_count: 0,
            acknack_count: 0,
            nack_frag_count: 0,
            frag_buffer,
            reliability: ReliabilityKind::Reliable,
        }
    }

    fn frag(sn: i64, starting_num: u32, frag_size: u16, data_size: u32, payload: &[u8]) -> DataFragSubmessage {
        DataFragSubmessage::new(
            false, false, false,
            EntityId::new([0, 0, 0], 0),
            EntityId::new([1, 0, 0], 2),
            sn, starting_num, 1, frag_size, data_size,
            ParameterList::empty(),
            SerializedDataFragment::from(payload),
        )
    }

    /// The first missing number is available_changes_max()+1 and every missing number lies in
    /// (available_changes_max, max(last_available, highest_received)]: the ACKNACK base the reader sends is exactly
    /// the first number it has not received, so an acknowledgement (base-1) never covers an unreceived change.
    /// @props C01 C03
    /// @kind proof
    /// @tier quick
    /// @fn RtpsWriterProxy::missing_changes, RtpsWriterProxy::available_changes_max
    #[cfg_attr(kani, kani::proof)]
    fn c01_missing_changes_start_after_available_max() {
        let p = any_proxy_with(Vec::new());
        let amax = p.available_changes_max();
        let first_missing = p.missing_changes().next();
        let upper = if p.last_available_seq_num > p.highest_received_change_sn { p.last_available_seq_num } else { p.highest_received_change_sn };
        match first_missing {
            Some(x) => {
                assert!(x == amax + 1, "C01: first missing change is available_changes_max()+1");
                assert!(x <= upper);
            }
            None => assert!(amax + 1 > upper, "C01: no missing change only if everything announced was received or is lost"),
        }
        kani::cover!(amax + 1 <= upper);
        kani::cover!(amax + 1 > upper);
        core::mem::forget(p);
    }

    /// is_historical_data_received() <=> at least one HEARTBEAT was seen and no change is missing
    /// (i.e. max(first_available, highest_received+1) > max(last_available, highest_received)).
    /// @props C04
    /// @kind proof
    /// @tier quick
    /// @fn RtpsWriterProxy::is_historical_data_received, RtpsWriterProxy::missing_changes
    #[cfg_attr(kani, kani::proof)]
    fn c04_is_historical_data_received_iff_heartbeat_and_nothing_missing() {
        let p = any_proxy_with(Vec::new());
        let first_missing = if p.first_available_seq_num > p.highest_received_change_sn + 1 { p.first_available_seq_num } else { p.highest_received_change_sn + 1 };
        let upper = if p.last_available_seq_num > p.highest_received_change_sn { p.last_available_seq_num } else { p.highest_received_change_sn };
        let expect = p.last_received_heartbeat_count > 0 && first_missing > upper;
        assert!(p.is_historical_data_received() == expect, "C04: historical data received iff a heartbeat was seen and nothing is missing");
        kani::cover!(expect);
        kani::cover!(p.last_received_heartbeat_count > 0 && !expect);
        core::mem::forget(p);
    }

    /// received_change_set(a): highest_received' == max(highest_received, a); first/last available unchanged;
    /// buffered fragments of samples <= a are dropped, newer ones kept.
    /// @props C01 C02 C05
    /// @kind bounded
    /// @tier quick
    /// @bounds fragment buffer of exactly 1 entry with symbolic sequence number
    /// @fn RtpsWriterProxy::received_change_set
    #[cfg_attr(kani, kani::proof)]
    fn c01_received_change_set_monotone_frame() {
        let fsn: i64 = kani::any();
        let mut p = any_proxy_with(alloc::vec![frag(fsn, 1, 2, 4, &[1, 2])]);
        let (first, last, highest) = (p.first_available_seq_num, p.last_available_seq_num, p.highest_received_change_sn);
        let a: i64 = kani::any();
        p.received_change_set(a);
        assert!(p.highest_received_change_sn == if a > highest { a } else { highest }, "C01: highest received never regresses");
        assert!(p.first_available_seq_num == first && p.last_available_seq_num == last, "frame");
        if fsn > a { assert!(p.frag_buffer.len() == 1); } else { assert!(p.frag_buffer.len() == 0); }
        kani::cover!(fsn > a);
        kani::cover!(fsn <= a);
        core::mem::forget(p);
    }

    // ------------------------------------------------------------------ C05: reassembly from an arbitrary buffer order
    /// Reassembly core, one call.  The fragment buffer (built as a literal: the field is private but visible to this child
    /// module) holds, in ARRIVAL order 2,[foreign],1, the two fragments of sample sn (payload 3 or 4 arbitrary bytes, fragment
    /// size 2) and one fragment of ANOTHER sample osn != sn carrying other arbitrary bytes and the same fragment number 1.
    /// reconstruct_data_from_frag(sn) returns Some(DATA) whose payload is byte-identical to the original (ordered by fragment
    /// number, not by arrival; no byte of the other sample), with sequence number sn; afterwards only the foreign fragment
    /// is still buffered.
    /// @props C05 C01
    /// @kind bounded
    /// @tier quick
    /// @timeout 1200
    /// @bounds payload 3 or 4 symbolic bytes, fragment size 2, 2 fragments + 1 foreign fragment, arrival order 2,foreign,1
    /// @cbmc --unwind 6 --unwindset memcmp.0:18
    /// @fn RtpsWriterProxy::reconstruct_data_from_frag, total_fragments_expected
    #[cfg_attr(kani, kani::proof)]
    fn c05_reassembly_by_fragment_number_not_arrival_order() {
        let bytes: [u8; 4] = kani::any();
        let other: [u8; 2] = kani::any();
        let sn: i64 = kani::any();
        let osn: i64 = kani::any();
        kani::assume(osn != sn);
        let short: bool = kani::any();
        let total: u32 = if short { 3 } else { 4 };
        let f1 = frag(sn, 1, 2, total, &bytes[0..2]);
        let f2 = if short { frag(sn, 2, 2, total, &bytes[2..3]) } else { frag(sn, 2, 2, total, &bytes[2..4]) };
        let fo = frag(osn, 1, 2, 4, &other);
        let mut buf = Vec::new();
        buf.push(f2);
        buf.push(fo);
        buf.push(f1);
        let mut p = any_proxy_with(buf);
        let d = p.reconstruct_data_from_frag(sn);
        assert!(d.is_some(), "C05: a sample whose fragments are all buffered is delivered");
        let d = d.unwrap();
        assert!(d.writer_sn() == sn, "C05: with its own sequence number");
        {
            let out: &[u8] = d.serialized_payload().as_ref();
            assert!(out.len() == total as usize, "C05: reassembled length equals the original");
            assert!(out[0] == bytes[0] && out[1] == bytes[1] && out[2] == bytes[2], "C05: reassembled bytes equal the original, in fragment-number order");
            if !short { assert!(out[3] == bytes[3], "C05: reassembled bytes equal the original"); }
        }
        assert!(p.frag_buffer.len() == 1 && p.frag_buffer[0].writer_sn() == osn, "C05: only the completed sample's fragments are consumed");
        kani::cover!(short);
        kani::cover!(!short && other[0] != bytes[0]);
        core::mem::forget(p);
        core::mem::forget(d);
    }

    /// An incomplete sample is never delivered: with only fragment 2 of 2 buffered (plus a fragment 1 of another sample),
    /// reconstruct_data_from_frag(sn) is None and the buffer is untouched.
    /// @props C05
    /// @kind bounded
    /// @tier quick
    /// @timeout 1200
    /// @bounds fragment size 2, data size 4, 1 of 2 fragments + 1 foreign fragment
    /// @cbmc --unwind 6 --unwindset memcmp.0:18
    /// @fn RtpsWriterProxy::reconstruct_data_from_frag
    #[cfg_attr(kani, kani::proof)]
    fn c05_incomplete_sample_not_delivered() {
        let bytes: [u8; 2] = kani::any();
        let other: [u8; 2] = kani::any();
        let sn: i64 = kani::any();
        let osn: i64 = kani::any();
        kani::assume(osn != sn);
        let which: bool = kani::any();
        let mut buf = Vec::new();
        buf.push(frag(sn, if which { 1 } else { 2 }, 2, 4, &bytes));
        buf.push(frag(osn, if which { 2 } else { 1 }, 2, 4, &other));
        let mut p = any_proxy_with(buf);
        let d = p.reconstruct_data_from_frag(sn);
        assert!(d.is_none(), "C05: a sample with a missing fragment is not delivered (another sample's fragment does not complete it)");
        assert!(p.frag_buffer.len() == 2, "C05: its fragments stay buffered");
        core::mem::forget(p);
        core::mem::forget(d);
    }

    /// C06/C01: the reader-side bookkeeping fed by a VALID HEARTBEAT never overflows.  For a proxy in an arbitrary
    /// well-formed state and every (first_sn, last_sn) a decoded HEARTBEAT can carry (first_sn >= 1, last_sn >= first_sn - 1,
    /// the postcondition of the HEARTBEAT decoder obligation) the handler's sequence missing_changes_update(last_sn),
    /// lost_changes_update(first_sn), missing_changes().count(), available_changes_max() runs without arithmetic overflow,
    /// keeps the proxy well-formed and available_changes_max >= first_sn - 1.
    /// @props C06 C01
    /// @kind proof
    /// @tier quick
    /// @fn RtpsWriterProxy::missing_changes_update, RtpsWriterProxy::lost_changes_update, RtpsWriterProxy::missing_changes, RtpsWriterProxy::available_changes_max
    #[cfg_attr(kani, kani::proof)]
    fn c06_proxy_bookkeeping_after_valid_heartbeat_no_overflow() {
        let mut p = any_proxy_with(Vec::new());
        let first_sn: i64 = kani::any();
        let last_sn: i64 = kani::any();
        kani::assume(first_sn >= 1 && last_sn >= first_sn - 1);
        p.missing_changes_update(last_sn);
        p.lost_changes_update(first_sn);
        let missing = p.missing_changes().count();
        let amax = p.available_changes_max();
        assert!(amax >= first_sn - 1, "C01: everything below first_sn counts as lost, i.e. not missing");
        assert!(p.first_available_seq_num > i64::MIN && p.highest_received_change_sn < i64::MAX, "wf preserved");
        kani::cover!(missing > 0);
        kani::cover!(missing == 0);
        core::mem::forget(p);
    }
