    // @unit name=writer_proxy file=dds/src/rtps/writer_proxy.rs
    // Child module of dds/src/rtps/writer_proxy.rs (C01, C02, C04, C05, C06).  Private fields are visible here, so
    // the proxy state is a struct literal with fully symbolic counters (an arbitrary state, not only a reachable one).
    // @assume wf(proxy): first_available_seq_num > i64::MIN, highest_received_change_sn < i64::MAX (see writer_proxy_v)

    use crate::rtps_messages::submessage_elements::{ParameterList, SerializedDataFragment};

    fn any_proxy_with(frag_buffer: Vec<DataFragSubmessage>) -> RtpsWriterProxy {
        let first: i64 = kani::any();
        let last: i64 = kani::any();
        let highest: i64 = kani::any();
        kani::assume(first > i64::MIN && highest < i64::MAX);
        let hb: i32 = kani::any();
        RtpsWriterProxy {
            remote_writer_guid: Guid::new([3; 12], EntityId::new([1, 0, 0], 2)),
            unicast_locator_list: Vec::new(),
            multicast_locator_list: Vec::new(),
            remote_group_entity_id: EntityId::new([0, 0, 0], 0),
            first_available_seq_num: first,
            last_available_seq_num: last,
            highest_received_change_sn: highest,
            must_send_acknacks: false,
            last_received_heartbeat_count: hb,
            last_received_heartbeat_frag_count: 0,
            acknack_count: 0,
            nack_frag_count: 0,
            frag_buffer,
            reliability: ReliabilityKind::Reliable,
        }
    }

    fn frag(sn: i64, starting_num: u32, frag_size: u16, data_size: u32, payload: &[u8]) -> DataFragSubmessage {
        DataFragSubmessage::new(
            false, false, false,
            EntityId::new([0, 0, 0], 0),
            EntityId::new([1, 0, 0], 2),
            sn, starting_num, 1, frag_size, data_size,
            ParameterList::empty(),
            SerializedDataFragment::from(payload),
        )
    }

    /// The first missing number is available_changes_max()+1 and every missing number lies in
    /// (available_changes_max, max(last_available, highest_received)]: the ACKNACK base the reader sends is exactly
    /// the first number it has not received, so an acknowledgement (base-1) never covers an unreceived change.
    /// @props C01 C03
    /// @kind proof
    /// @tier quick
    /// @fn RtpsWriterProxy::missing_changes, RtpsWriterProxy::available_changes_max
    #[cfg_attr(kani, kani::proof)]
    fn c01_missing_changes_start_after_available_max() {
        let p = any_proxy_with(Vec::new());
        let amax = p.available_changes_max();
        let first_missing = p.missing_changes().next();
        let upper = if p.last_available_seq_num > p.highest_received_change_sn { p.last_available_seq_num } else { p.highest_received_change_sn };
        match first_missing {
            Some(x) => {
                assert!(x == amax + 1, "C01: first missing change is available_changes_max()+1");
                assert!(x <= upper);
            }
            None => assert!(amax + 1 > upper, "C01: no missing change only if everything announced was received or is lost"),
        }
        kani::cover!(amax + 1 <= upper);
        kani::cover!(amax + 1 > upper);
        core::mem::forget(p);
    }

    /// is_historical_data_received() <=> at least one HEARTBEAT was seen and no change is missing
    /// (i.e. max(first_available, highest_received+1) > max(last_available, highest_received)).
    /// @props C04
    /// @kind proof
    /// @tier quick
    /// @fn RtpsWriterProxy::is_historical_data_received, RtpsWriterProxy::missing_changes
    #[cfg_attr(kani, kani::proof)]
    fn c04_is_historical_data_received_iff_heartbeat_and_nothing_missing() {
        let p = any_proxy_with(Vec::new());
        let first_missing = if p.first_available_seq_num > p.highest_received_change_sn + 1 { p.first_available_seq_num } else { p.highest_received_change_sn + 1 };
        let upper = if p.last_available_seq_num > p.highest_received_change_sn { p.last_available_seq_num } else { p.highest_received_change_sn };
        let expect = p.last_received_heartbeat_count > 0 && first_missing > upper;
        assert!(p.is_historical_data_received() == expect, "C04: historical data received iff a heartbeat was seen and nothing is missing");
        kani::cover!(expect);
        kani::cover!(p.last_received_heartbeat_count > 0 && !expect);
        core::mem::forget(p);
    }

    /// received_change_set(a): highest_received' == max(highest_received, a); first/last available unchanged;
    /// buffered fragments of samples <= a are dropped, newer ones kept.
    /// @props C01 C02 C05
    /// @kind bounded
    /// @tier quick
    /// @bounds fragment buffer of exactly 1 entry with symbolic sequence number
    /// @fn RtpsWriterProxy::received_change_set
    #[cfg_attr(kani, kani::proof)]
    fn c01_received_change_set_monotone_frame() {
        let fsn: i64 = kani::any();
        let mut p = any_proxy_with(alloc::vec![frag(fsn, 1, 2, 4, &[1, 2])]);
        let (first, last, highest) = (p.first_available_seq_num, p.last_available_seq_num, p.highest_received_change_sn);
        let a: i64 = kani::any();
        p.received_change_set(a);
        assert!(p.highest_received_change_sn == if a > highest { a } else { highest }, "C01: highest received never regresses");
        assert!(p.first_available_seq_num == first && p.last_available_seq_num == last, "frame");
        if fsn > a { assert!(p.frag_buffer.len() == 1); } else { assert!(p.frag_buffer.len() == 0); }
        kani::cover!(fsn > a);
        kani::cover!(fsn <= a);
        core::mem::forget(p);
    }

    // ------------------------------------------------------------------ C05: reassembly
    fn check_reassembly(first_then_second: bool, total: u32, with_noise: bool) {
        let bytes: [u8; 4] = kani::any();
        let other: [u8; 2] = kani::any();
        let sn: i64 = kani::any();
        let osn: i64 = kani::any();
        kani::assume(osn != sn);
        let mut p = any_proxy_with(Vec::new());
        let f1 = frag(sn, 1, 2, total, &bytes[0..2]);
        let f2 = if total == 4 { frag(sn, 2, 2, total, &bytes[2..4]) } else { frag(sn, 2, 2, total, &bytes[2..3]) };
        let (a, b) = if first_then_second { (f1, f2) } else { (f2, f1) };
        if with_noise {
            p.push_data_frag(a.clone());
            assert!(p.reconstruct_data_from_frag(sn).is_none(), "C05: incomplete sample is not delivered");
            p.push_data_frag(frag(osn, 1, 2, 4, &other)); // fragment of another sample, other bytes
            p.push_data_frag(a);                           // duplicate
            assert!(p.reconstruct_data_from_frag(sn).is_none(), "C05: duplicate / foreign fragments do not complete a sample");
        } else {
            p.push_data_frag(a);
            assert!(p.reconstruct_data_from_frag(sn).is_none(), "C05: incomplete sample is not delivered");
        }
        p.push_data_frag(b);
        let d = p.reconstruct_data_from_frag(sn);
        assert!(d.is_some(), "C05: complete sample is delivered");
        let d = d.unwrap();
        assert!(d.writer_sn() == sn);
        {
            let out: &[u8] = d.serialized_payload().as_ref();
            assert!(out.len() == total as usize, "C05: reassembled length equals the original");
            assert!(out[0] == bytes[0] && out[1] == bytes[1] && out[2] == bytes[2], "C05: reassembled bytes equal the original");
            if total == 4 { assert!(out[3] == bytes[3]); }
        }
        if with_noise {
            assert!(p.frag_buffer.len() == 1 && p.frag_buffer[0].writer_sn() == osn, "C05: only the completed sample's fragments are consumed");
        } else {
            assert!(p.frag_buffer.len() == 0);
        }
        core::mem::forget(p);
        core::mem::forget(d);
    }

    /// Reassembly, 2 fragments in order (payload 4 bytes = exact multiple of the fragment size 2): None until complete, then
    /// Some(DATA) with byte-identical payload and the right sequence number; fragments consumed.
    /// @props C05
    /// @kind bounded
    /// @tier quick
    /// @bounds payload 4 symbolic bytes, fragment size 2, 2 fragments, arrival order 1,2
    /// @cbmc --unwind 5 --unwindset memcmp.0:18
    /// @fn RtpsWriterProxy::push_data_frag, RtpsWriterProxy::reconstruct_data_from_frag, total_fragments_expected
    #[cfg_attr(kani, kani::proof)]
    fn c05_reassembly_in_order_exact_multiple() {
        check_reassembly(true, 4, false);
    }

    /// Reassembly, 2 fragments reordered (payload 3 bytes: short last fragment arrives first).
    /// @props C05
    /// @kind bounded
    /// @tier quick
    /// @bounds payload 3 symbolic bytes, fragment size 2, 2 fragments, arrival order 2,1
    /// @cbmc --unwind 5 --unwindset memcmp.0:18
    /// @fn RtpsWriterProxy::push_data_frag, RtpsWriterProxy::reconstruct_data_from_frag, total_fragments_expected
    #[cfg_attr(kani, kani::proof)]
    fn c05_reassembly_reordered_short_tail() {
        check_reassembly(false, 3, false);
    }

    /// Reassembly with a duplicate of the first-arrived fragment and a fragment of ANOTHER sample (other sequence
    /// number, other bytes) interleaved, reordered arrival: the foreign bytes never enter the payload, the duplicate does
    /// not complete the sample, the foreign fragment stays buffered.
    /// @props C05
    /// @kind bounded
    /// @tier quick
    /// @bounds payload 4 symbolic bytes, fragment size 2, arrival 2,[foreign],2(dup),1
    /// @cbmc --unwind 6 --unwindset memcmp.0:18
    /// @fn RtpsWriterProxy::push_data_frag, RtpsWriterProxy::reconstruct_data_from_frag
    #[cfg_attr(kani, kani::proof)]
    fn c05_reassembly_duplicate_and_foreign_fragment() {
        check_reassembly(false, 4, true);
    }
