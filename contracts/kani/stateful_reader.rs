    // @unit name=stateful_reader file=dds/src/rtps/stateful_reader.rs
    // Child module of dds/src/rtps/stateful_reader.rs (C01, C02): Hoare-triple obligations on the real
    // RtpsStatefulReader::on_data_submessage.  Inductive-step form: an ARBITRARY reachable proxy state (built through the
    // public operations with symbolic arguments: any first_available, any highest_received >= 0, any last_available) and an
    // ARBITRARY DATA submessage (any sequence number, writer id matching or not, symbolic payload bytes).
    // Bounded only in: number of matched proxies (1 quick / 2 thorough), payload length (4 bytes), empty inline QoS.
    // @assume wf(proxy): first_available_seq_num > i64::MIN and highest_received_change_sn < i64::MAX (hostile HEARTBEAT/GAP values that break wf are the subject of C06)

    use crate::rtps_messages::submessage_elements::{Data, ParameterList};
    use crate::transport::types::{EntityId, Locator, DurabilityKind};
    use alloc::sync::Arc;

    fn any_entity_id() -> EntityId {
        let k: u8 = kani::any();
        let kind: u8 = kani::any();
        EntityId::new([k, 0, 0], kind)
    }

    fn any_prefix() -> GuidPrefix {
        let p: u8 = kani::any();
        [p, 0, 0, 0, 0, 0, 0, 0, 0, 0, 0, 0]
    }

    /// a matched proxy in an arbitrary reachable state
    fn add_any_proxy(reader: &mut RtpsStatefulReader, guid: Guid, rel: ReliabilityKind) {
        reader.add_matched_writer(&WriterProxy {
            remote_writer_guid: guid,
            remote_group_entity_id: EntityId::new([0, 0, 0], 0),
            reliability_kind: rel,
            durability_kind: DurabilityKind::Volatile,
            unicast_locator_list: Vec::new(),
            multicast_locator_list: Vec::new(),
        });
        let first: i64 = kani::any();
        let highest: i64 = kani::any();
        let last: i64 = kani::any();
        kani::assume(first > i64::MIN);
        kani::assume(highest < i64::MAX);
        let p = reader.matched_writer_lookup(guid).unwrap();
        p.lost_changes_update(first);
        p.irrelevant_change_set(highest);
        p.missing_changes_update(last);
    }

    fn any_data(writer_id: EntityId, sn: i64, payload: [u8; 4]) -> DataSubmessage {
        DataSubmessage::new(
            false, true, false, false,
            EntityId::new([0, 0, 0], 0),
            writer_id,
            sn,
            ParameterList::empty(),
            Data::new(Arc::from(payload.as_slice())),
        )
    }

    fn check_on_data(reliability: ReliabilityKind, two: bool) {
        let reader_guid = Guid::new([9; 12], EntityId::new([1, 0, 0], 7));
        let mut reader = RtpsStatefulReader::new(reader_guid, reliability);
        let prefix = any_prefix();
        let w1 = Guid::new(prefix, any_entity_id());
        add_any_proxy(&mut reader, w1, reliability);
        let w2 = Guid::new(any_prefix(), any_entity_id());
        if two {
            kani::assume(w2 != w1);
            add_any_proxy(&mut reader, w2, reliability);
        }
        let max1_before = reader.matched_writer_lookup(w1).unwrap().available_changes_max();
        let max2_before = if two { reader.matched_writer_lookup(w2).unwrap().available_changes_max() } else { 0 };

        // arbitrary DATA submessage from arbitrary source
        let src_prefix = any_prefix();
        let writer_id = any_entity_id();
        let sn: i64 = kani::any();
        let payload: [u8; 4] = kani::any();
        let data = any_data(writer_id, sn, payload);
        let src = Guid::new(src_prefix, writer_id);

        reader.on_data_submessage(&data, src_prefix, None);

        let from_w1 = src == w1;
        let from_w2 = two && src == w2;
        let max_before = if from_w1 { max1_before } else { max2_before };
        let accept = match reliability {
            ReliabilityKind::Reliable => (from_w1 || from_w2) && sn == max_before + 1,
            ReliabilityKind::BestEffort => (from_w1 || from_w2) && sn >= max_before + 1,
        };
        let n = reader.changes_mut().len();
        assert!(n <= 1, "at most one change is appended per DATA submessage");
        if accept {
            assert!(n == 1, "an in-order DATA from a matched writer is appended");
            let c = &reader.changes_mut()[0];
            assert!(c.sequence_number == sn, "stored sequence number is the submessage's");
            assert!(c.writer_guid == src, "stored writer GUID is the source");
            assert!(c.data_value.len() == 4 && c.data_value[0] == payload[0] && c.data_value[1] == payload[1]
                && c.data_value[2] == payload[2] && c.data_value[3] == payload[3], "payload bytes are intact");
            assert!(c.kind == crate::transport::types::ChangeKind::Alive);
        } else {
            assert!(n == 0, "duplicates, out-of-order numbers and unmatched writers append nothing");
        }
        let max1_after = reader.matched_writer_lookup(w1).unwrap().available_changes_max();
        if from_w1 && accept {
            assert!(max1_after == sn, "after acceptance the proxy's available_changes_max equals the accepted number");
        } else {
            assert!(max1_after == max1_before, "a rejected or foreign DATA leaves the proxy's progress unchanged");
        }
        if two {
            let max2_after = reader.matched_writer_lookup(w2).unwrap().available_changes_max();
            if from_w2 && accept {
                assert!(max2_after == sn);
            } else {
                assert!(max2_after == max2_before, "the other writer's proxy is untouched");
            }
        }
        kani::cover!(accept);
        kani::cover!((from_w1 || from_w2) && !accept);
        kani::cover!(!from_w1 && !from_w2);
        core::mem::forget(reader);
        core::mem::forget(data);
    }

    /// RELIABLE reader, 1 matched writer: a DATA is appended iff it comes from the matched writer and
    /// sn == available_changes_max()+1; at most one change; stored sn / writer GUID / payload bytes equal the submessage's;
    /// afterwards available_changes_max() == sn; otherwise nothing changes.
    /// @props C01
    /// @kind bounded
    /// @tier quick
    /// @bounds 1 matched writer proxy (arbitrary reachable state), payload 4 symbolic bytes, empty inline QoS; all i64 sequence numbers
    /// @fn RtpsStatefulReader::on_data_submessage, RtpsWriterProxy::received_change_set, RtpsWriterProxy::available_changes_max, CacheChange::try_from_data_submessage
    #[cfg_attr(kani, kani::proof)]
    fn c01_reliable_on_data_in_order_exactly_once() {
        check_on_data(ReliabilityKind::Reliable, false);
    }

    /// BEST_EFFORT reader, 1 matched writer: a DATA is appended iff sn >= available_changes_max()+1; afterwards
    /// available_changes_max() == sn, so every later arrival <= sn is rejected: presented samples are a subsequence in
    /// publication order, each at most once, payload bytes identical.
    /// @props C02
    /// @kind bounded
    /// @tier quick
    /// @bounds 1 matched writer proxy (arbitrary reachable state), payload 4 symbolic bytes, empty inline QoS; all i64 sequence numbers
    /// @fn RtpsStatefulReader::on_data_submessage, RtpsWriterProxy::received_change_set, RtpsWriterProxy::lost_changes_update, RtpsWriterProxy::available_changes_max
    #[cfg_attr(kani, kani::proof)]
    fn c02_best_effort_on_data_subsequence() {
        check_on_data(ReliabilityKind::BestEffort, false);
    }

    /// RELIABLE, 2 matched writers: as above and the other writer's proxy is untouched.
    /// @props C01
    /// @kind bounded
    /// @tier thorough
    /// @bounds 2 matched writer proxies, payload 4 bytes, empty inline QoS
    /// @fn RtpsStatefulReader::on_data_submessage
    #[cfg_attr(kani, kani::proof)]
    fn c01_reliable_on_data_two_writers() {
        check_on_data(ReliabilityKind::Reliable, true);
    }

    /// BEST_EFFORT, 2 matched writers: as above and the other writer's proxy is untouched.
    /// @props C02
    /// @kind bounded
    /// @tier thorough
    /// @bounds 2 matched writer proxies, payload 4 bytes, empty inline QoS
    /// @fn RtpsStatefulReader::on_data_submessage
    #[cfg_attr(kani, kani::proof)]
    fn c02_best_effort_on_data_two_writers() {
        check_on_data(ReliabilityKind::BestEffort, true);
    }
