    // @unit name=qos_validators file=dds/src/dcps/infrastructure/qos.rs
    // Child module of dds/src/dcps/infrastructure/qos.rs (C37): the QoS validators every create_*/set_qos path calls
    // before it stores a QoS.  Oracles are written from the DDS 1.4 consistency rules (2.2.3: RESOURCE_LIMITS, HISTORY,
    // DEADLINE/TIME_BASED_FILTER) and the "Changeable" column of the QoS table, not from the code.
    // @assume Length::Limited(n) is generated with n >= 0: a negative limit is not a DDS value (LENGTH_UNLIMITED is the only negative length in the standard and it is Length::Unlimited here); with n < 0 the code's `depth as usize > Limited(n)` compares against n as usize (huge) - observation, not decided

    use crate::infrastructure::qos_policy::*;
    use crate::infrastructure::time::{Duration as DdsDuration, DurationKind};

    fn any_length() -> Length {
        if kani::any() {
            Length::Unlimited
        } else {
            let n: i32 = kani::any();
            kani::assume(n >= 0);
            Length::Limited(n)
        }
    }
    // mathematical value of a length, UNLIMITED = +infinity (i64::MAX stands for it; every limited value is < 2^31)
    fn len_val(l: Length) -> i64 {
        match l {
            Length::Unlimited => i64::MAX,
            Length::Limited(n) => n as i64,
        }
    }
    fn any_history() -> HistoryQosPolicyKind {
        if kani::any() { HistoryQosPolicyKind::KeepAll } else { HistoryQosPolicyKind::KeepLast(kani::any()) }
    }
    fn any_duration_kind() -> DurationKind {
        if kani::any() {
            DurationKind::Infinite
        } else {
            let sec: i32 = kani::any();
            let nanosec: u32 = kani::any();
            kani::assume(nanosec < 1_000_000_000);
            DurationKind::Finite(DdsDuration::new(sec, nanosec))
        }
    }
    // a < b in the mathematical order, INFINITE on top; normalized finite values compare lexicographically (C14 lemma)
    fn dur_lt(a: DurationKind, b: DurationKind) -> bool {
        match (a, b) {
            (DurationKind::Infinite, _) => false,
            (DurationKind::Finite(_), DurationKind::Infinite) => true,
            (DurationKind::Finite(x), DurationKind::Finite(y)) => x.sec < y.sec || (x.sec == y.sec && x.nanosec < y.nanosec),
        }
    }
    fn resource_history_inconsistent(rl: &ResourceLimitsQosPolicy, h: HistoryQosPolicyKind) -> bool {
        let depth_too_big = match h {
            HistoryQosPolicyKind::KeepLast(d) => (d as i64) > len_val(rl.max_samples_per_instance),
            HistoryQosPolicyKind::KeepAll => false,
        };
        len_val(rl.max_samples) < len_val(rl.max_samples_per_instance) || depth_too_big
    }
    fn code_of(r: DdsResult<()>) -> u8 {
        match r {
            Ok(()) => 0,
            Err(DdsError::InconsistentPolicy) => 1,
            Err(DdsError::ImmutablePolicy) => 2,
            Err(_) => 3,
        }
    }
    fn any_resource_limits() -> ResourceLimitsQosPolicy {
        ResourceLimitsQosPolicy { max_samples: any_length(), max_instances: any_length(), max_samples_per_instance: any_length() }
    }

    /// DataWriterQos::is_consistent returns Err(InconsistentPolicy) iff max_samples < max_samples_per_instance, or
    /// KEEP_LAST depth > max_samples_per_instance, or more than one data representation is offered (UNLIMITED = infinity);
    /// otherwise Ok; never another error. All lengths >= 0, every u32 depth, representation lists of 0..=2 entries.
    /// @props C37
    /// @kind proof
    /// @tier quick
    /// @bounds none on the scalar policies; representation list length 0..=2 (the function only reads its length)
    /// @fn DataWriterQos::is_consistent, <Length as PartialOrd>::partial_cmp, <usize as PartialOrd<Length>>::partial_cmp
    #[cfg_attr(kani, kani::proof)]
    fn c37_writer_is_consistent_iff_table() {
        let mut q = DataWriterQos::const_default();
        q.resource_limits = any_resource_limits();
        q.history = HistoryQosPolicy { kind: any_history() };
        let nrep: u8 = kani::any();
        kani::assume(nrep <= 2);
        let mut rep = Vec::new();
        if nrep >= 1 { rep.push(kani::any()); }
        if nrep >= 2 { rep.push(kani::any()); }
        q.representation = DataRepresentationQosPolicy { value: rep };
        let expect = nrep > 1 || resource_history_inconsistent(&q.resource_limits, q.history.kind);
        let got = code_of(q.is_consistent());
        assert!(got == if expect { 1 } else { 0 }, "C37: DataWriterQos is rejected with InconsistentPolicy iff the DDS consistency rules are violated");
        kani::cover!(expect);
        kani::cover!(!expect);
        core::mem::forget(q);
    }

    /// DataReaderQos::is_consistent: Err(InconsistentPolicy) iff max_samples < max_samples_per_instance, or KEEP_LAST
    /// depth > max_samples_per_instance, or DEADLINE period < TIME_BASED_FILTER minimum_separation; otherwise Ok.
    /// @props C37
    /// @kind proof
    /// @tier quick
    /// @bounds none (all lengths >= 0, all depths, all normalized durations incl. INFINITE)
    /// @fn DataReaderQos::is_consistent, <DurationKind as PartialOrd>::partial_cmp
    #[cfg_attr(kani, kani::proof)]
    fn c37_reader_is_consistent_iff_table() {
        let mut q = DataReaderQos::const_default();
        q.resource_limits = any_resource_limits();
        q.history = HistoryQosPolicy { kind: any_history() };
        let period = any_duration_kind();
        let sep = any_duration_kind();
        q.deadline = DeadlineQosPolicy { period };
        q.time_based_filter = TimeBasedFilterQosPolicy { minimum_separation: sep };
        let expect = resource_history_inconsistent(&q.resource_limits, q.history.kind) || dur_lt(period, sep);
        let got = code_of(q.is_consistent());
        assert!(got == if expect { 1 } else { 0 }, "C37: DataReaderQos is rejected with InconsistentPolicy iff the DDS consistency rules are violated");
        kani::cover!(expect);
        kani::cover!(!expect);
        core::mem::forget(q);
    }

    /// TopicQos::is_consistent: Err(InconsistentPolicy) iff max_samples < max_samples_per_instance or KEEP_LAST depth >
    /// max_samples_per_instance; otherwise Ok.
    /// @props C37
    /// @kind proof
    /// @tier quick
    /// @bounds none (all lengths >= 0, all depths)
    /// @fn TopicQos::is_consistent
    #[cfg_attr(kani, kani::proof)]
    fn c37_topic_is_consistent_iff_table() {
        let mut q = TopicQos::const_default();
        q.resource_limits = any_resource_limits();
        q.history = HistoryQosPolicy { kind: any_history() };
        let expect = resource_history_inconsistent(&q.resource_limits, q.history.kind);
        let got = code_of(q.is_consistent());
        assert!(got == if expect { 1 } else { 0 }, "C37: TopicQos is rejected with InconsistentPolicy iff the DDS consistency rules are violated");
        kani::cover!(expect);
        kani::cover!(!expect);
        core::mem::forget(q);
    }

    // ---------- immutability
    struct Pol {
        durability: u8, liveliness_kind: u8, lease: DurationKind, reliability: bool, max_blocking: DurationKind,
        dest_order: bool, history: HistoryQosPolicyKind, rl: ResourceLimitsQosPolicy, ownership: bool,
        // mutable ones
        deadline: DurationKind, latency: DurationKind, aux: i32,
    }
    fn any_pol() -> Pol {
        let durability: u8 = kani::any();
        kani::assume(durability < 4);
        let liveliness_kind: u8 = kani::any();
        kani::assume(liveliness_kind < 3);
        Pol {
            durability, liveliness_kind, lease: any_duration_kind(), reliability: kani::any(), max_blocking: any_duration_kind(),
            dest_order: kani::any(), history: any_history(), rl: any_resource_limits(), ownership: kani::any(),
            deadline: any_duration_kind(), latency: any_duration_kind(), aux: kani::any(),
        }
    }
    fn durability_of(p: &Pol) -> DurabilityQosPolicy {
        DurabilityQosPolicy { kind: match p.durability {
            0 => DurabilityQosPolicyKind::Volatile, 1 => DurabilityQosPolicyKind::TransientLocal,
            2 => DurabilityQosPolicyKind::Transient, _ => DurabilityQosPolicyKind::Persistent } }
    }
    fn liveliness_of(p: &Pol) -> LivelinessQosPolicy {
        LivelinessQosPolicy { kind: match p.liveliness_kind {
            0 => LivelinessQosPolicyKind::Automatic, 1 => LivelinessQosPolicyKind::ManualByParticipant,
            _ => LivelinessQosPolicyKind::ManualByTopic }, lease_duration: p.lease }
    }
    fn reliability_of(p: &Pol) -> ReliabilityQosPolicy {
        ReliabilityQosPolicy { kind: if p.reliability { ReliabilityQosPolicyKind::Reliable } else { ReliabilityQosPolicyKind::BestEffort }, max_blocking_time: p.max_blocking }
    }
    fn dest_order_of(p: &Pol) -> DestinationOrderQosPolicy {
        DestinationOrderQosPolicy { kind: if p.dest_order { DestinationOrderQosPolicyKind::BySourceTimestamp } else { DestinationOrderQosPolicyKind::ByReceptionTimestamp } }
    }
    fn ownership_of(p: &Pol) -> OwnershipQosPolicy {
        OwnershipQosPolicy { kind: if p.ownership { OwnershipQosPolicyKind::Exclusive } else { OwnershipQosPolicyKind::Shared } }
    }
    fn dk_eq(a: DurationKind, b: DurationKind) -> bool {
        match (a, b) {
            (DurationKind::Infinite, DurationKind::Infinite) => true,
            (DurationKind::Finite(x), DurationKind::Finite(y)) => x.sec == y.sec && x.nanosec == y.nanosec,
            _ => false,
        }
    }
    fn len_eq(a: Length, b: Length) -> bool {
        match (a, b) {
            (Length::Unlimited, Length::Unlimited) => true,
            (Length::Limited(x), Length::Limited(y)) => x == y,
            _ => false,
        }
    }
    fn hist_eq(a: HistoryQosPolicyKind, b: HistoryQosPolicyKind) -> bool {
        match (a, b) {
            (HistoryQosPolicyKind::KeepAll, HistoryQosPolicyKind::KeepAll) => true,
            (HistoryQosPolicyKind::KeepLast(x), HistoryQosPolicyKind::KeepLast(y)) => x == y,
            _ => false,
        }
    }
    /// some policy whose "Changeable" column says NO differs (DDS 1.4 table 2.2.3)
    fn immutable_differs(a: &Pol, b: &Pol) -> bool {
        a.durability != b.durability
            || a.liveliness_kind != b.liveliness_kind || !dk_eq(a.lease, b.lease)
            || a.reliability != b.reliability || !dk_eq(a.max_blocking, b.max_blocking)
            || a.dest_order != b.dest_order
            || !hist_eq(a.history, b.history)
            || !len_eq(a.rl.max_samples, b.rl.max_samples) || !len_eq(a.rl.max_instances, b.rl.max_instances)
            || !len_eq(a.rl.max_samples_per_instance, b.rl.max_samples_per_instance)
            || a.ownership != b.ownership
    }
    fn writer_of(p: &Pol) -> DataWriterQos {
        let mut q = DataWriterQos::const_default();
        q.durability = durability_of(p);
        q.liveliness = liveliness_of(p);
        q.reliability = reliability_of(p);
        q.destination_order = dest_order_of(p);
        q.history = HistoryQosPolicy { kind: p.history };
        q.resource_limits = p.rl.clone();
        q.ownership = ownership_of(p);
        q.deadline = DeadlineQosPolicy { period: p.deadline };
        q.latency_budget = LatencyBudgetQosPolicy { duration: p.latency };
        q.transport_priority = TransportPriorityQosPolicy { value: p.aux };
        q.ownership_strength = OwnershipStrengthQosPolicy { value: p.aux };
        q.lifespan = LifespanQosPolicy { duration: p.latency };
        q
    }
    fn reader_of(p: &Pol) -> DataReaderQos {
        let mut q = DataReaderQos::const_default();
        q.durability = durability_of(p);
        q.liveliness = liveliness_of(p);
        q.reliability = reliability_of(p);
        q.destination_order = dest_order_of(p);
        q.history = HistoryQosPolicy { kind: p.history };
        q.resource_limits = p.rl.clone();
        q.ownership = ownership_of(p);
        q.deadline = DeadlineQosPolicy { period: p.deadline };
        q.latency_budget = LatencyBudgetQosPolicy { duration: p.latency };
        q.time_based_filter = TimeBasedFilterQosPolicy { minimum_separation: p.latency };
        q
    }

    /// DataWriterQos::check_immutability(old, new) returns Err(ImmutablePolicy) iff one of DURABILITY, LIVELINESS,
    /// RELIABILITY, DESTINATION_ORDER, HISTORY, RESOURCE_LIMITS, OWNERSHIP differs (any field of them), and Ok when only
    /// changeable policies (DEADLINE, LATENCY_BUDGET, LIFESPAN, TRANSPORT_PRIORITY, OWNERSHIP_STRENGTH) differ.
    /// @props C37
    /// @kind proof
    /// @tier quick
    /// @bounds none on the scalar policies of both values; USER_DATA / representation left at their (equal) defaults
    /// @fn DataWriterQos::check_immutability
    #[cfg_attr(kani, kani::proof)]
    fn c37_writer_check_immutability_iff_immutable_policy_differs() {
        let a = any_pol();
        let b = any_pol();
        let qa = writer_of(&a);
        let qb = writer_of(&b);
        let expect = immutable_differs(&a, &b);
        let got = code_of(qa.check_immutability(&qb));
        assert!(got == if expect { 2 } else { 0 }, "C37: a change is rejected with ImmutablePolicy iff it touches an immutable policy");
        kani::cover!(expect);
        kani::cover!(!expect && !dk_eq(a.deadline, b.deadline));
        core::mem::forget(qa);
        core::mem::forget(qb);
    }

    /// DataReaderQos::check_immutability: same rule (changeable here: DEADLINE, LATENCY_BUDGET, TIME_BASED_FILTER).
    /// @props C37
    /// @kind proof
    /// @tier quick
    /// @bounds none on the scalar policies of both values; USER_DATA / representation left at their (equal) defaults
    /// @fn DataReaderQos::check_immutability
    #[cfg_attr(kani, kani::proof)]
    fn c37_reader_check_immutability_iff_immutable_policy_differs() {
        let a = any_pol();
        let b = any_pol();
        let qa = reader_of(&a);
        let qb = reader_of(&b);
        let expect = immutable_differs(&a, &b);
        let got = code_of(qa.check_immutability(&qb));
        assert!(got == if expect { 2 } else { 0 }, "C37: a change is rejected with ImmutablePolicy iff it touches an immutable policy");
        kani::cover!(expect);
        kani::cover!(!expect && !dk_eq(a.deadline, b.deadline));
        core::mem::forget(qa);
        core::mem::forget(qb);
    }

    /// SubscriberQos::check_immutability: Err(ImmutablePolicy) iff PRESENTATION differs (scope or either flag); a change
    /// of ENTITY_FACTORY alone is accepted.
    /// @props C37
    /// @kind proof
    /// @tier quick
    /// @bounds none on PRESENTATION and ENTITY_FACTORY; PARTITION / GROUP_DATA left at their (equal) defaults
    /// @fn SubscriberQos::check_immutability
    #[cfg_attr(kani, kani::proof)]
    fn c37_subscriber_check_immutability_iff_presentation_differs() {
        let mut qa = SubscriberQos::const_default();
        let mut qb = SubscriberQos::const_default();
        let (sa, ca, oa): (bool, bool, bool) = (kani::any(), kani::any(), kani::any());
        let (sb, cb, ob): (bool, bool, bool) = (kani::any(), kani::any(), kani::any());
        let scope = |t: bool| if t { PresentationQosPolicyAccessScopeKind::Topic } else { PresentationQosPolicyAccessScopeKind::Instance };
        qa.presentation = PresentationQosPolicy { access_scope: scope(sa), coherent_access: ca, ordered_access: oa };
        qb.presentation = PresentationQosPolicy { access_scope: scope(sb), coherent_access: cb, ordered_access: ob };
        qa.entity_factory = EntityFactoryQosPolicy { autoenable_created_entities: kani::any() };
        qb.entity_factory = EntityFactoryQosPolicy { autoenable_created_entities: kani::any() };
        let expect = sa != sb || ca != cb || oa != ob;
        let got = code_of(qa.check_immutability(&qb));
        assert!(got == if expect { 2 } else { 0 }, "C37: a SubscriberQos change is rejected with ImmutablePolicy iff PRESENTATION differs");
        kani::cover!(expect);
        kani::cover!(!expect);
        core::mem::forget(qa);
        core::mem::forget(qb);
    }
