    // @unit name=chan_mpsc file=dds/src/dcps/channels/mpsc.rs
    // Child module of dds/src/dcps/channels/mpsc.rs (C34): same scheme as chan_oneshot.
    // Invariant I: (!data.is_empty() || is_closed) ==> waker.is_none().
    // @assume critical_section::with gives mutual exclusion (acquire/release stubbed as no-ops via verif_support): each channel operation is one atomic step

    use alloc::task::Wake;
    use core::sync::atomic::{AtomicUsize, Ordering};

    struct CountWake(AtomicUsize);
    impl Wake for CountWake {
        fn wake(self: Arc<Self>) {
            self.0.fetch_add(1, Ordering::SeqCst);
        }
    }
    fn counter() -> Arc<CountWake> { Arc::new(CountWake(AtomicUsize::new(0))) }
    fn wakes(c: &Arc<CountWake>) -> usize { c.0.load(Ordering::SeqCst) }
    // (0, _) = Pending, (1, v) = Ready(Some(v)), (2, _) = Ready(None)
    fn poll_code(rx: &MpscReceiver<u32>, w: &Waker) -> (u8, u32) {
        let mut f = MpscReceiverFuture { inner: rx.inner.clone() };
        let mut cx = Context::from_waker(w);
        let r = match Pin::new(&mut f).poll(&mut cx) {
            Poll::Pending => (0, 0),
            Poll::Ready(Some(v)) => (1, v),
            Poll::Ready(None) => (2, 0),
        };
        core::mem::forget(f);
        r
    }

    // NOT BUILT / not decided: FIFO order and exactly-once delivery of the queue.  Two obligations were written for it
    // (2 producers x 2 values, and 1 producer x 1 value) - CBMC does not finish either within 5-10 minutes: the queue is
    // a VecDeque::with_capacity(64) and its ring-buffer index arithmetic / element reads are what the solver gets stuck in.
    // The disconnection obligations below never put a value into the queue.

    fn state_of(rx: &MpscReceiver<u32>) -> (bool, bool, usize) {
        critical_section::with(|cs| {
            let i = rx.inner.borrow(cs).borrow();
            (i.is_closed, i.waker.is_some(), i.sender_count)
        })
    }

    /// Disconnection of the queue (the known finding KF-C34-MPSC-NO-DISCONNECT of earlier revisions, now repaired): with 1
    /// or 2 senders (clone) and the receiver parked or not, dropping a sender that is not the last neither wakes nor
    /// closes; dropping the LAST sender closes the queue, wakes a parked receiver exactly once, and the receiver is told so
    /// (Ready(None)) instead of waiting forever; sender_count equals the number of live senders throughout; a send on a
    /// live sender is never refused.
    /// @props C34
    /// @kind proof
    /// @tier quick
    /// @bounds none on the finite state explored: receiver parked or not x 1 or 2 senders; the queue stays empty
    /// @cbmc --unwind 4 --unwindset memcmp.0:18
    /// @fn <MpscSender as Clone>::clone, <MpscSender as Drop>::drop, <MpscReceiverFuture as Future>::poll
    #[cfg_attr(kani, kani::proof)]
    #[cfg_attr(kani, kani::stub(critical_section::acquire, verif_support::cs_acquire))]
    #[cfg_attr(kani, kani::stub(critical_section::release, verif_support::cs_release))]
    fn c34_mpsc_reports_disconnection_when_all_senders_dropped() {
        let (tx, rx) = mpsc_channel::<u32>();
        let c = counter();
        let w = Waker::from(c.clone());
        let two: bool = kani::any();
        let tx2 = if two { Some(tx.clone()) } else { None };
        assert!(state_of(&rx).2 == if two { 2 } else { 1 }, "C34: sender_count equals the number of live senders");
        let parked: bool = kani::any();
        if parked {
            assert!(poll_code(&rx, &w).0 == 0, "C34: empty queue and a live sender: Pending");
            assert!(state_of(&rx).1, "C34: the receiver's waker is registered");
        }
        if two {
            drop(tx2);
            let (closed, _, n) = state_of(&rx);
            assert!(!closed && n == 1 && wakes(&c) == 0, "C34: dropping a sender that is not the last neither closes nor wakes");
            assert!(poll_code(&rx, &w).0 == 0, "C34: no disconnection while a sender is alive");
        }
        drop(tx);
        let (closed, has_waker, n) = state_of(&rx);
        assert!(closed && n == 0, "C34: dropping the last sender closes the queue");
        assert!(!has_waker, "C34 invariant: no parked waker once the queue is closed");
        let expected = if parked || two { 1 } else { 0 };
        assert!(wakes(&c) == expected, "C34: a parked receiver is woken exactly once by the last drop");
        assert!(poll_code(&rx, &w).0 == 2, "C34: disconnection reported when the sending side is gone and the queue is empty");
        kani::cover!(two && parked);
        kani::cover!(!two && !parked);
        core::mem::forget(rx);
        core::mem::forget(w);
        core::mem::forget(c);
    }

    /// The history of the repaired finding on its own (it refers to no field of the inner state, so it can be replayed
    /// against older trees): create the queue, drop the only sender without sending, poll: Ready(None), not Pending.
    /// @props C34
    /// @kind proof
    /// @tier quick
    /// @bounds none (concrete history)
    /// @cbmc --unwind 4 --unwindset memcmp.0:18
    /// @fn <MpscReceiverFuture as Future>::poll, <MpscSender as Drop>::drop
    #[cfg_attr(kani, kani::proof)]
    #[cfg_attr(kani, kani::stub(critical_section::acquire, verif_support::cs_acquire))]
    #[cfg_attr(kani, kani::stub(critical_section::release, verif_support::cs_release))]
    fn c34_mpsc_drop_without_send_reports_disconnection() {
        let (tx, rx) = mpsc_channel::<u32>();
        let c = counter();
        let w = Waker::from(c.clone());
        drop(tx);
        assert!(poll_code(&rx, &w).0 == 2, "C34: disconnection reported when the sending side is dropped without sending");
        core::mem::forget(rx);
        core::mem::forget(w);
        core::mem::forget(c);
    }
