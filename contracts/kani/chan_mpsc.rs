    // @unit name=chan_mpsc file=dds/src/dcps/channels/mpsc.rs
    // Child module of dds/src/dcps/channels/mpsc.rs (C34): same scheme as chan_oneshot.
    // Invariant I: (!data.is_empty() || is_closed) ==> waker.is_none().
    // @assume critical_section::with gives mutual exclusion (acquire/release stubbed as no-ops via verif_support): each channel operation is one atomic step

    use alloc::task::Wake;
    use core::sync::atomic::{AtomicUsize, Ordering};

    struct CountWake(AtomicUsize);
    impl Wake for CountWake {
        fn wake(self: Arc<Self>) {
            self.0.fetch_add(1, Ordering::SeqCst);
        }
    }
    fn counter() -> Arc<CountWake> { Arc::new(CountWake(AtomicUsize::new(0))) }
    fn wakes(c: &Arc<CountWake>) -> usize { c.0.load(Ordering::SeqCst) }
    // (0, _) = Pending, (1, v) = Ready(Some(v)), (2, _) = Ready(None)
    fn poll_code(rx: &MpscReceiver<u32>, w: &Waker) -> (u8, u32) {
        let mut f = MpscReceiverFuture { inner: rx.inner.clone() };
        let mut cx = Context::from_waker(w);
        let r = match Pin::new(&mut f).poll(&mut cx) {
            Poll::Pending => (0, 0),
            Poll::Ready(Some(v)) => (1, v),
            Poll::Ready(None) => (2, 0),
        };
        core::mem::forget(f);
        r
    }

    // NOT BUILT / not decided: FIFO order and exactly-once delivery of the queue.  Two obligations were written for it
    // (2 producers x 2 values, and 1 producer x 1 value) - CBMC does not finish either within 5-10 minutes: the queue is
    // a VecDeque::with_capacity(64) and its ring-buffer index arithmetic under a symbolic "receiver parked" flag is what
    // the solver gets stuck in.  Only the disconnection probe below runs.

    /// Disconnection of the queue: once every sender has been dropped and the queue is empty the receiver is told so
    /// (Ready(None)) instead of waiting forever.
    /// @props C34
    /// @kind bounded
    /// @tier quick
    /// @known KF-C34-MPSC-NO-DISCONNECT
    /// @bounds 1 sender, empty queue
    /// @cbmc --unwind 4 --unwindset memcmp.0:18
    /// @fn <MpscReceiverFuture as Future>::poll, MpscSender (no Drop impl)
    #[cfg_attr(kani, kani::proof)]
    #[cfg_attr(kani, kani::stub(critical_section::acquire, verif_support::cs_acquire))]
    #[cfg_attr(kani, kani::stub(critical_section::release, verif_support::cs_release))]
    fn c34_kf_mpsc_reports_disconnection_when_all_senders_dropped() {
        let (tx, rx) = mpsc_channel::<u32>();
        let c = counter();
        let w = Waker::from(c.clone());
        drop(tx);
        assert!(poll_code(&rx, &w).0 == 2, "C34: disconnection reported when the sending side is dropped without sending");
        core::mem::forget(rx);
        core::mem::forget(w);
        core::mem::forget(c);
    }
