    // @unit name=msg_elements file=dds/src/rtps_messages/submessage_elements.rs unwind=10 unwindset=memcmp.0:50
    // Child module of submessage_elements.rs (C06, C07, C08): the RTPS submessage-element decoders are TOTAL (Ok or Err for
    // every byte string up to the stated length, never a panic, never an arithmetic overflow, every loop bounded - the
    // unwinding assertions are on) and the encoders/decoders are inverse on every well-formed value.
    // Private fields (base / num_bits / bitmap) are visible to this child module.
    // @assume dust-dds always WRITES little-endian (WriteIntoBytes for Long uses to_le_bytes); round trips are stated for the endianness flag it writes, decoders are checked for both

    use crate::rtps_messages::overall_structure::{write_into_bytes_vec, Cursor};

    fn any_endianness() -> Endianness {
        if kani::any() { Endianness::LittleEndian } else { Endianness::BigEndian }
    }

    /// C07/C06: SequenceNumberSet decoder total.  For EVERY byte string of length 0..=48 and both byte orders
    /// try_read_from_bytes returns Ok or Err without panic or overflow; on Ok num_bits <= 256 and base >= 1 (the invariants the
    /// ACKNACK/GAP handlers rely on: acked = base - 1, irrelevant up to base - 1), exactly 12 + 4*ceil(num_bits/32) bytes were consumed and the rest of the input is untouched.
    /// @props C07 C06
    /// @kind bounded
    /// @tier quick
    /// @bounds input length 0..=48 bytes (the longest well-formed encoding is 44 bytes)
    /// @fn SequenceNumberSet::try_read_from_bytes
    #[cfg_attr(kani, kani::proof)]
    fn c07_sequence_number_set_decoder_total() {
        let buf: [u8; 48] = kani::any();
        let n: usize = kani::any();
        kani::assume(n <= 48);
        let mut d: &[u8] = &buf[..n];
        let e = any_endianness();
        let r = SequenceNumberSet::try_read_from_bytes(&mut d, &e);
        match &r {
            Ok(s) => {
                assert!(s.num_bits <= 256, "C07: a decoded set never claims more than 256 bits");
                assert!(s.base >= 1, "C06: a decoded set has a valid base (>= 1), so that base - 1 in the ACKNACK / GAP handlers cannot overflow");
                let m = (s.num_bits as usize + 31) / 32;
                assert!(n - d.len() == 12 + 4 * m, "C07: exactly the encoded length is consumed");
            }
            Err(_) => {}
        }
        kani::cover!(r.is_ok());
        kani::cover!(r.is_err() && n >= 44);
        core::mem::forget(r);
    }

    /// C07/C06: FragmentNumberSet decoder rejects num_bits > 256 (an index past bitmap[8] otherwise): for every base and
    /// every num_bits in 257..=u32::MAX, on a full-length little-endian encoding, the result is Err - no panic.
    /// @props C07 C06
    /// @kind proof
    /// @tier quick
    /// @unwind_failure violation
    /// @fn FragmentNumberSet::try_read_from_bytes
    #[cfg_attr(kani, kani::proof)]
    fn c07_fragment_number_set_rejects_more_than_256_bits() {
        let base: u32 = kani::any();
        let num_bits: u32 = kani::any();
        kani::assume(num_bits > 256);
        let mut buf = [0u8; 40];
        let bb = base.to_le_bytes();
        let nb = num_bits.to_le_bytes();
        buf[0] = bb[0]; buf[1] = bb[1]; buf[2] = bb[2]; buf[3] = bb[3];
        buf[4] = nb[0]; buf[5] = nb[1]; buf[6] = nb[2]; buf[7] = nb[3];
        let mut d: &[u8] = &buf;
        let r = FragmentNumberSet::try_read_from_bytes(&mut d, &Endianness::LittleEndian);
        assert!(r.is_err(), "C07: a fragment number set announcing more than 256 bits is malformed");
        core::mem::forget(r);
    }

    /// C07/C06: FragmentNumberSet decoder total on short sets: every byte string of length 0..=12 whose num_bits field is
    /// <= 4 (ANY base incl. u32::MAX, any bitmap word, both byte orders): Ok or Err, no panic, no overflow; on Ok the set
    /// can be enumerated without overflow and its members are exactly base + (positions of the set bits below num_bits).
    /// @props C07 C06
    /// @kind bounded
    /// @tier thorough
    /// @bounds num_bits <= 4, input length 0..=12
    /// @cbmc --unwind 8 --unwindset memcmp.0:50
    /// @timeout 2400
    /// @fn FragmentNumberSet::try_read_from_bytes, FragmentNumberSet::new, FragmentNumberSet::set
    #[cfg_attr(kani, kani::proof)]
    fn c07_fragment_number_set_decoder_total_short() {
        let buf: [u8; 12] = kani::any();
        let n: usize = kani::any();
        kani::assume(n <= 12);
        let le: bool = kani::any();
        let e = if le { Endianness::LittleEndian } else { Endianness::BigEndian };
        let b4 = [buf[0], buf[1], buf[2], buf[3]];
        let n4 = [buf[4], buf[5], buf[6], buf[7]];
        let w4 = [buf[8], buf[9], buf[10], buf[11]];
        let base = if le { u32::from_le_bytes(b4) } else { u32::from_be_bytes(b4) };
        let num_bits = if le { u32::from_le_bytes(n4) } else { u32::from_be_bytes(n4) };
        let word = if le { u32::from_le_bytes(w4) } else { u32::from_be_bytes(w4) };
        kani::assume(num_bits <= 4);
        let mut d: &[u8] = &buf[..n];
        let r = FragmentNumberSet::try_read_from_bytes(&mut d, &e);
        if let Ok(s) = &r {
            assert!(s.base == base && s.num_bits <= num_bits, "C07: decoded base is the wire base; num_bits never grows");
            let mut it = s.set();
            let mut k: u32 = 0;
            while k < 4 {
                if k < num_bits && (word >> (31 - k)) & 1 == 1 {
                    assert!(it.next() == Some(base + k), "C07/C08: members are base + position of each set bit");
                }
                k += 1;
            }
            assert!(it.next() == None);
        }
        kani::cover!(r.is_ok() && num_bits == 4 && word >> 28 == 0b1010);
        kani::cover!(r.is_err());
        kani::cover!(r.is_err() && n == 12 && base == u32::MAX);
        core::mem::forget(r);
    }

    /// C07/C06: a decoded SequenceNumberSet can be enumerated: for every byte string of length 16 with num_bits <= 4 (ANY
    /// base incl. i64::MAX, any bitmap word, both byte orders) try_read_from_bytes is Ok or Err, and on Ok iterating set()
    /// - what the ACKNACK and GAP handlers do - never overflows and yields base + position of each set bit.
    /// @props C07 C06
    /// @kind bounded
    /// @tier quick
    /// @bounds num_bits <= 4, input length 16
    /// @cbmc --unwind 8 --unwindset memcmp.0:50
    /// @timeout 1200
    /// @fn SequenceNumberSet::try_read_from_bytes, SequenceNumberSet::set
    #[cfg_attr(kani, kani::proof)]
    fn c07_sequence_number_set_decoded_set_enumerable() {
        let buf: [u8; 16] = kani::any();
        let le: bool = kani::any();
        let e = if le { Endianness::LittleEndian } else { Endianness::BigEndian };
        let n4 = [buf[8], buf[9], buf[10], buf[11]];
        let w4 = [buf[12], buf[13], buf[14], buf[15]];
        let num_bits = if le { u32::from_le_bytes(n4) } else { u32::from_be_bytes(n4) };
        let word = if le { u32::from_le_bytes(w4) } else { u32::from_be_bytes(w4) };
        kani::assume(num_bits <= 4);
        let mut d: &[u8] = &buf;
        let r = SequenceNumberSet::try_read_from_bytes(&mut d, &e);
        if let Ok(s) = &r {
            let base = s.base;
            let mut it = s.set();
            let mut k: u32 = 0;
            while k < 4 {
                if k < num_bits && (word >> (31 - k)) & 1 == 1 {
                    assert!(it.next() == Some(base + k as i64), "C07/C08: members are base + position of each set bit");
                }
                k += 1;
            }
            assert!(it.next() == None);
        }
        kani::cover!(r.is_ok() && num_bits == 4);
        kani::cover!(r.is_err());
        core::mem::forget(r);
    }

    /// C08: SequenceNumberSet wire round trip.  For EVERY well-formed value (any base >= 1 with base + num_bits - 1 <= i64::MAX, num_bits 0..=256, any bitmap whose
    /// words beyond ceil(num_bits/32) are zero - the form `new` and the decoder produce) decoding the bytes written by
    /// write_into_bytes yields an equal value and consumes all bytes; the encoding is 12 + 4*ceil(num_bits/32) bytes long.
    /// @props C08
    /// @kind proof
    /// @tier quick
    /// @fn <SequenceNumberSet as WriteIntoBytes>::write_into_bytes, SequenceNumberSet::try_read_from_bytes
    #[cfg_attr(kani, kani::proof)]
    fn c08_sequence_number_set_round_trip() {
        let base: i64 = kani::any();
        let num_bits: u32 = kani::any();
        kani::assume(num_bits <= 256);
        // the base and every member base + k (k < num_bits) are sequence numbers (>= 1, representable)
        kani::assume(base >= 1);
        kani::assume(num_bits == 0 || base <= i64::MAX - (num_bits as i64 - 1));
        let mut bitmap: [i32; 8] = kani::any();
        let m = ((num_bits + 31) / 32) as usize;
        let mut i = 0;
        while i < 8 {
            if i >= m { bitmap[i] = 0; }
            i += 1;
        }
        let x = SequenceNumberSet { base, num_bits, bitmap };
        let bytes = write_into_bytes_vec(x.clone());
        assert!(bytes.len() == 12 + 4 * m, "C08: encoded length is 12 + 4*M");
        let mut d: &[u8] = &bytes;
        let y = SequenceNumberSet::try_read_from_bytes(&mut d, &Endianness::LittleEndian);
        match y {
            Ok(y) => {
                assert!(y.base == x.base && y.num_bits == x.num_bits && y.bitmap == x.bitmap, "C08: decode(encode(x)) == x");
                assert!(d.len() == 0, "C08: the decoder consumes exactly what the encoder wrote");
            }
            Err(_) => assert!(false, "C08: a written set always decodes"),
        }
        kani::cover!(num_bits == 256);
        kani::cover!(num_bits == 0);
        kani::cover!(num_bits == 33);
        core::mem::forget(bytes);
    }

    /// C08: SequenceNumberSet::new(base, S).set() enumerates exactly S, in increasing order, for every base and every S of
    /// two members within [base, base+63] - the set the reader reports in an ACKNACK is the set the writer sees.
    /// @props C08 C01
    /// @kind bounded
    /// @tier quick
    /// @bounds |S| = 2 symbolic members within [base, base+63], base <= i64::MAX - 255
    /// @cbmc --unwind 70 --unwindset memcmp.0:50
    /// @timeout 1200
    /// @fn SequenceNumberSet::new, SequenceNumberSet::set
    #[cfg_attr(kani, kani::proof)]
    fn c08_sequence_number_set_new_then_set_is_identity() {
        let base: i64 = kani::any();
        kani::assume(base <= i64::MAX - 255);
        let d1: u8 = kani::any();
        let d2: u8 = kani::any();
        kani::assume(d1 < d2 && d2 < 64);
        let s = SequenceNumberSet::new(base, [base + d1 as i64, base + d2 as i64]);
        assert!(s.base == base && s.num_bits == d2 as u32 + 1);
        let mut it = s.set();
        assert!(it.next() == Some(base + d1 as i64), "C08: first member");
        assert!(it.next() == Some(base + d2 as i64), "C08: second member");
        assert!(it.next() == None, "C08: nothing else");
    }

    /// C08: SequenceNumber (high i32, low u32) wire round trip for every i64, and the decoder agrees with the byte order
    /// flag: big-endian bytes decode to the same number.
    /// @props C08
    /// @kind proof
    /// @tier quick
    /// @fn <SequenceNumber as WriteIntoBytes>::write_into_bytes, <SequenceNumber as TryReadFromBytes>::try_read_from_bytes
    #[cfg_attr(kani, kani::proof)]
    fn c08_sequence_number_round_trip() {
        let x: i64 = kani::any();
        let bytes = write_into_bytes_vec(x);
        assert!(bytes.len() == 8);
        let mut d: &[u8] = &bytes;
        let y = SequenceNumber::try_read_from_bytes(&mut d, &Endianness::LittleEndian);
        assert!(matches!(y, Ok(v) if v == x), "C08: decode(encode(sn)) == sn for every i64");
        let high = (x >> 32) as i32;
        let low = x as u32;
        let hb = high.to_be_bytes();
        let lb = low.to_be_bytes();
        let be = [hb[0], hb[1], hb[2], hb[3], lb[0], lb[1], lb[2], lb[3]];
        let mut d2: &[u8] = &be;
        let z = SequenceNumber::try_read_from_bytes(&mut d2, &Endianness::BigEndian);
        assert!(matches!(z, Ok(v) if v == x), "C08: the big-endian form decodes to the same number");
        core::mem::forget(bytes);
    }

    /// C08: Locator and LocatorList wire round trip (2 locators, every kind / port / address).
    /// @props C08
    /// @kind bounded
    /// @tier quick
    /// @bounds list of exactly 2 locators
    /// @cbmc --unwind 30 --unwindset memcmp.0:50
    /// @fn <LocatorList as WriteIntoBytes>::write_into_bytes, <LocatorList as TryReadFromBytes>::try_read_from_bytes
    #[cfg_attr(kani, kani::proof)]
    fn c08_locator_list_round_trip() {
        let l1 = Locator::new(kani::any(), kani::any(), kani::any());
        let l2 = Locator::new(kani::any(), kani::any(), kani::any());
        let mut v = Vec::new();
        v.push(l1);
        v.push(l2);
        let x = LocatorList::new(v);
        let bytes = write_into_bytes_vec(x.clone());
        assert!(bytes.len() == 4 + 2 * 24);
        let mut d: &[u8] = &bytes;
        let y = LocatorList::try_read_from_bytes(&mut d, &Endianness::LittleEndian);
        match &y {
            Ok(y) => assert!(y.value().len() == 2 && y.value()[0] == l1 && y.value()[1] == l2 && d.len() == 0, "C08: decode(encode(list)) == list"),
            Err(_) => assert!(false, "C08: a written locator list always decodes"),
        }
        core::mem::forget(bytes);
        core::mem::forget(x);
        core::mem::forget(y);
    }

    /// C07/C06: LocatorList decoder total: every byte string of length 0..=56 (num_locators is an arbitrary u32, up to 2^32
    /// announced entries) gives Ok or Err without panic; the loop ends after at most len/24 + 1 iterations because every
    /// iteration consumes 24 bytes or fails (unwinding assertion on) - work proportional to the datagram, not to the
    /// announced count.
    /// @props C07 C06
    /// @kind bounded
    /// @tier quick
    /// @bounds input length 0..=56 bytes
    /// @unwind_failure violation
    /// @fn <LocatorList as TryReadFromBytes>::try_read_from_bytes
    #[cfg_attr(kani, kani::proof)]
    fn c07_locator_list_decoder_total() {
        let buf: [u8; 56] = kani::any();
        let n: usize = kani::any();
        kani::assume(n <= 56);
        let mut d: &[u8] = &buf[..n];
        let e = any_endianness();
        let r = LocatorList::try_read_from_bytes(&mut d, &e);
        if let Ok(l) = &r {
            assert!(l.value().len() <= 2 && n - d.len() == 4 + 24 * l.value().len(), "C07: consumed = 4 + 24 * count");
        }
        kani::cover!(matches!(&r, Ok(l) if l.value().len() == 2));
        kani::cover!(r.is_err());
        core::mem::forget(r);
    }

    /// C07/C06: Parameter / ParameterList decoder total: every byte string of length 0..=12, both byte orders: Ok or Err,
    /// no panic; the list loop consumes at least 4 bytes per iteration.
    /// @props C07 C06
    /// @kind bounded
    /// @tier extended
    /// @bounds input length 0..=12 bytes
    /// @unwind_failure violation
    /// @timeout 2400
    /// @fn ParameterList::try_read_from_bytes, Parameter::try_read_from_bytes
    #[cfg_attr(kani, kani::proof)]
    fn c07_parameter_list_decoder_total() {
        let buf: [u8; 12] = kani::any();
        let n: usize = kani::any();
        kani::assume(n <= 12);
        let mut d: &[u8] = &buf[..n];
        let e = any_endianness();
        let r = ParameterList::try_read_from_bytes(&mut d, &e);
        if let Ok(l) = &r {
            assert!(l.parameter().len() <= 3);
            assert!(d.len() <= n);
        }
        kani::cover!(matches!(&r, Ok(l) if l.parameter().len() == 1));
        kani::cover!(r.is_err());
        core::mem::forget(r);
    }
