    // @unit name=writer_entity file=dds/src/dcps/dcps_domain_participant/data_writer_entity.rs unwind=4 unwindset=memcmp.0:18
    // Child module of data_writer_entity.rs (C19 writer side, C29 write-time rule): the REAL generic
    // DataWriterEntity<T: RtpsWriter>::write_w_timestamp instantiated with a recording mock RTPS writer, so that "what was
    // handed to the RTPS layer" is observable.  Inductive-step form: arbitrary pre-state of the stated size that respects
    // the limits, arbitrary write.
    // @assume the VALUES stored in RegisteredInstanceInfo::samples (a VecDeque<i64>) are not asserted: any element read of the deque makes CBMC exhaust 62 GB; lengths are asserted, and the value pushed is the sequence number handed to the RTPS writer, which is asserted
    // @assume the caller (writer_methods.rs) removes the oldest sample of a full KEEP_LAST instance before calling write_w_timestamp; here KEEP_LAST pre-states hold fewer than depth samples per instance

    use crate::infrastructure::qos_policy::{HistoryQosPolicy, LifespanQosPolicy, ResourceLimitsQosPolicy};
    use crate::runtime::{Clock, Spawner, TaskHandle, Timer};
    use crate::transport::types::{EntityId, Guid, Locator};

    struct RecWriter { calls: u8, last_sn: i64, last_b0: u8, last_len: usize }
    impl RtpsWriter for RecWriter {
        fn guid(&self) -> Guid {
            Guid::new([3; 12], EntityId::new([1, 2, 3], 2))
        }
        fn add_change(&mut self, c: CacheChange, _w: &(impl WriteMessage + ?Sized), _r: &impl DdsRuntime) {
            self.calls += 1;
            self.last_sn = c.sequence_number;
            self.last_len = c.data_value.len();
            self.last_b0 = if c.data_value.len() > 0 { c.data_value[0] } else { 0 };
            core::mem::forget(c);
        }
    }
    struct NullMsg;
    impl WriteMessage for NullMsg {
        fn write_message(&self, _buf: &[u8], _locators: &[Locator]) {}
    }
    #[derive(Clone)]
    struct NoClock;
    impl Clock for NoClock { fn now(&self) -> Time { Time::new(100, 0) } }
    #[derive(Clone)]
    struct NoTimer;
    impl Timer for NoTimer {
        fn delay(&mut self, _d: core::time::Duration) -> impl core::future::Future<Output = ()> + Send { async {} }
    }
    struct NoTask;
    impl TaskHandle for NoTask { fn join(&self) {} }
    #[derive(Clone)]
    struct NoSpawner;
    impl Spawner for NoSpawner {
        type TaskHandle = NoTask;
        fn spawn(&self, _f: impl core::future::Future<Output = ()> + Send + 'static) -> NoTask { NoTask }
    }
    struct NoRuntime;
    impl DdsRuntime for NoRuntime {
        type ClockHandle = NoClock;
        type TimerHandle = NoTimer;
        type SpawnerHandle = NoSpawner;
        fn timer(&self) -> NoTimer { NoTimer }
        fn clock(&self) -> NoClock { NoClock }
        fn spawner(&self) -> NoSpawner { NoSpawner }
    }

    fn ih(b: u8) -> InstanceHandle {
        InstanceHandle::new([b, 0, 0, 0, 0, 0, 0, 0, 0, 0, 0, 0, 0, 0, 0, 0])
    }
    fn any_limit(max: u8) -> (u8, Length) {
        let v: u8 = kani::any();   // 0 = unlimited
        kani::assume(v <= max);
        (v, if v == 0 { Length::Unlimited } else { Length::Limited(v as i32) })
    }
    fn mk_writer(qos: DataWriterQos) -> DataWriterEntity<RecWriter> {
        let mut w = DataWriterEntity::new(ih(99), RecWriter { calls: 0, last_sn: 0, last_b0: 0, last_len: 0 }, String::new(), qos);
        w.enabled = true;
        w
    }

    /// C19 inductive step (writer side), KEEP_ALL.  Resource limits arbitrary (max_instances in {unlimited,1,2}, max_samples
    /// in {unlimited,1..3}, max_samples_per_instance in {unlimited,1,2}); pre-state: instance 1 registered holding k samples (k = 1 here, 2 in the twin obligation)
    /// within the limits; a write to instance 1 or to the not yet registered instance 2 with an arbitrary 2-byte
    /// payload.  Then: Err(OutOfResources) iff storing the sample would exceed a limit (one more instance than
    /// max_instances, one more sample than max_samples or than max_samples_per_instance); on that error NOTHING is stored -
    /// no add_change call reaches the RTPS writer, the per-instance sample lists, the set of registered instances and the
    /// sequence number are what they were; on Ok exactly one change with the next sequence number and the given bytes is
    /// handed to the RTPS writer, the sample is recorded under its instance, and all three limits hold afterwards.
    /// @props C19
    /// @kind bounded
    /// @tier quick
    /// @timeout 1500
    /// @bounds 1 registered instance with 1 sample, 2 instance handles, limits up to 3, payload 2 bytes
    /// @fn DataWriterEntity::write_w_timestamp
    #[cfg_attr(kani, kani::proof)]
    #[cfg_attr(kani, kani::stub(alloc::fmt::format, verif_support::fmt_format_stub))]
    fn c19_writer_refuses_over_limit_and_stores_nothing() {
        check_c19_writer(1);
    }

    /// same obligation with 2 samples already stored for instance 1
    /// @props C19
    /// @kind bounded
    /// @tier quick
    /// @timeout 1500
    /// @bounds 1 registered instance with 2 samples, 2 instance handles, limits up to 3, payload 2 bytes
    /// @fn DataWriterEntity::write_w_timestamp
    #[cfg_attr(kani, kani::proof)]
    #[cfg_attr(kani, kani::stub(alloc::fmt::format, verif_support::fmt_format_stub))]
    fn c19_writer_refuses_over_limit_and_stores_nothing_2() {
        check_c19_writer(2);
    }

    fn check_c19_writer(k: u8) { check_c19_writer_b(k, None) }
    fn check_c19_writer_b(k: u8, fixed_b: Option<u8>) { check_c19_writer_c(k, fixed_b, false) }
    fn check_c19_writer_c(k: u8, fixed_b: Option<u8>, conc: bool) {
        let (mi, max_instances) = if conc { (2, Length::Limited(2)) } else { any_limit(2) };
        let (ms, max_samples) = if conc { (3, Length::Limited(3)) } else { any_limit(3) };
        let (mp, max_samples_per_instance) = if conc { (2, Length::Limited(2)) } else { any_limit(2) };
        let mut qos = DataWriterQos::const_default();
        qos.history = HistoryQosPolicy { kind: HistoryQosPolicyKind::KeepAll };
        qos.resource_limits = ResourceLimitsQosPolicy { max_samples, max_instances, max_samples_per_instance };
        let mut w = mk_writer(qos);
        kani::assume(ms == 0 || k <= ms);
        kani::assume(mp == 0 || k <= mp);
        let mut samples = VecDeque::new();
        if k >= 1 { samples.push_back(1i64); }
        if k >= 2 { samples.push_back(2i64); }
        w.registered_instance_info.push(RegisteredInstanceInfo { instance_handle: ih(1), last_write_time: None, samples });
        w.last_change_sequence_number = 2;
        let b: u8 = match fixed_b { Some(x) => x, None => kani::any() };
        kani::assume(b == 1 || b == 2);
        let p0: u8 = kani::any();
        let p1: u8 = kani::any();
        let mut data = Vec::new();
        data.push(p0);
        data.push(p1);
        let res = w.write_w_timestamp(ih(b), data, Time::new(50, 0), Time::new(60, 0), &NullMsg, &NoRuntime);
        let new_instance = b == 2;
        let inst_after: u8 = if new_instance { 2 } else { 1 };
        let per_after: u8 = if new_instance { 1 } else { k + 1 };
        let total_after: u8 = k + 1;
        let exceeds = (mi != 0 && inst_after > mi) || (mp != 0 && per_after > mp) || (ms != 0 && total_after > ms);
        let code: u8 = match &res { Ok(()) => 0, Err(DdsError::OutOfResources) => 1, Err(_) => 2 };
        assert!(code != 2, "C19: the only refusal is OutOfResources");
        assert!((code == 1) == exceeds, "C19: a write is refused with OutOfResources exactly when it would exceed a resource limit");
        if code == 1 {
            assert!(w.transport_writer.calls == 0, "C19: a refused write hands nothing to the RTPS writer");
            assert!(w.last_change_sequence_number == 2, "C19: a refused write consumes no sequence number");
            assert!(w.registered_instance_info.len() == 1 && w.registered_instance_info[0].instance_handle == ih(1)
                && w.registered_instance_info[0].samples.len() == k as usize,
                "C19: a refused write stores nothing (no sample, no instance registration)");
        } else {
            assert!(w.transport_writer.calls == 1 && w.transport_writer.last_sn == 3 && w.last_change_sequence_number == 3,
                "C19: an accepted write hands exactly one change with the next sequence number to the RTPS writer");
            assert!(w.transport_writer.last_len == 2 && w.transport_writer.last_b0 == p0, "payload handed over unchanged");
            assert!(w.registered_instance_info.len() == inst_after as usize);
            if new_instance {
                let ri = &w.registered_instance_info[1];
                assert!(ri.instance_handle == ih(2) && ri.samples.len() == 1,
                    "C19: the sample is recorded under its (new) instance");
                assert!(w.registered_instance_info[0].samples.len() == k as usize);
            } else {
                let ri = &w.registered_instance_info[0];
                assert!(ri.instance_handle == ih(1) && ri.samples.len() == k as usize + 1,
                    "C19: the sample is recorded under its instance");
            }
        }
        kani::cover!(code == 0 && new_instance);
        kani::cover!(code == 1 && new_instance && !(mi != 0 && inst_after > mi));
        kani::cover!(code == 1 && !new_instance);
        core::mem::forget(w);
        core::mem::forget(res);
    }

    /// C29 write-time rule.  A writer with a finite lifespan L (sec 0..=65535, any nanosec) and no resource limits; a write
    /// with source timestamp ts (sec 0..=65535, any nanosec) at local time `now` (same range): the change reaches the RTPS
    /// writer (and with it any reader, now or later) iff ts + L > now, i.e. a sample that is already expired when it is
    /// written is never handed to the RTPS layer; with an infinite lifespan it always is.
    /// @props C29
    /// @kind bounded
    /// @tier quick
    /// @timeout 1500
    /// @bounds seconds below 65536 (keeps the sums away from the i32 saturation of Time/Duration arithmetic, see C14)
    /// @fn DataWriterEntity::write_w_timestamp
    #[cfg_attr(kani, kani::proof)]
    #[cfg_attr(kani, kani::stub(alloc::fmt::format, verif_support::fmt_format_stub))]
    fn c29_expired_at_write_is_not_sent() {
        let finite: bool = kani::any();
        let ls: u16 = kani::any();
        let ln: u32 = kani::any();
        kani::assume(ln < 1_000_000_000);
        let mut qos = DataWriterQos::const_default();
        qos.history = HistoryQosPolicy { kind: HistoryQosPolicyKind::KeepAll };
        qos.lifespan = LifespanQosPolicy {
            duration: if finite { DurationKind::Finite(Duration::new(ls as i32, ln)) } else { DurationKind::Infinite },
        };
        let mut w = mk_writer(qos);
        let ts_s: u16 = kani::any();
        let ts_n: u32 = kani::any();
        let now_s: u16 = kani::any();
        let now_n: u32 = kani::any();
        kani::assume(ts_n < 1_000_000_000 && now_n < 1_000_000_000);
        let mut data = Vec::new();
        data.push(7u8);
        let res = w.write_w_timestamp(ih(1), data, Time::new(ts_s as i32, ts_n), Time::new(now_s as i32, now_n), &NullMsg, &NoRuntime);
        assert!(res.is_ok());
        // ts + L > now, computed on (sec, nanosec) with carry: no wide multiplication in the oracle
        let mut es = ts_s as u32 + ls as u32;
        let mut en = ts_n + ln;
        if en >= 1_000_000_000 { en -= 1_000_000_000; es += 1; }
        let alive = !finite || es > now_s as u32 || (es == now_s as u32 && en > now_n);
        assert!((w.transport_writer.calls == 1) == alive,
            "C29: a change is handed to the RTPS writer iff source timestamp + lifespan lies in the future");
        assert!(w.transport_writer.calls <= 1);
        kani::cover!(finite && alive);
        kani::cover!(finite && !alive);
        kani::cover!(finite && es == now_s as u32 && en == now_n);
        core::mem::forget(w);
        core::mem::forget(res);
    }

