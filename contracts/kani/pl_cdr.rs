    // @unit name=pl_cdr file=dds/src/dcps/data_representation_builtin_endpoints/rtps_data_representation.rs unwind=8 unwindset=memcmp.0:30 loops=extend_with:20
    // Child module of rtps_data_representation.rs (C13, C07, C06): the PL_CDR parameter-list layer that carries all discovery
    // data.  Writer side = ParameterListSerializer (pub(crate), rtps_data_representation_serialization.rs), reader side =
    // ParameterList / PidIterator / CdrDeserializer of this file.  Only this layer: the values of the builtin-topic types
    // that go through the XTypes (de)serializers (write_xcdr*_parameter) are NOT under contract.

    use crate::dcps::data_representation_builtin_endpoints::rtps_data_representation_serialization::ParameterListSerializer;

    /// C13: parameter-list round trip and "unknown parameters are ignored".  A list written by the real serializer with
    /// three parameters - arbitrary pids p1, p2, p3 (vendor-specific / unknown ones included; not the sentinel 1 and not
    /// the header's pseudo pid 768) carrying an arbitrary u32, an arbitrary Locator and an arbitrary Duration - is read back
    /// by the real reader: every parameter is found by its pid with exactly the value written (the first occurrence wins
    /// when pids coincide), a pid that was not written yields the caller's default for an optional parameter and
    /// PidNotFound for a mandatory one - whatever else the list contains.
    /// @props C13
    /// @kind bounded
    /// @tier quick
    /// @timeout 1500
    /// @bounds 3 parameters (u32, Locator, Duration) with arbitrary pids and values; little-endian PL_CDR as dust-dds writes it
    /// @fn ParameterListSerializer::write_header, ParameterListSerializer::write_cdr_parameter, ParameterListSerializer::write_sentinel, ParameterList::new, ParameterList::get_non_optional_parameter, ParameterList::get_optional_parameter, PidIterator::next
    #[cfg_attr(kani, kani::proof)]
    fn c13_parameter_list_round_trip_and_unknown_pids_ignored() {
        let p1: i16 = kani::any();
        let p2: i16 = kani::any();
        let p3: i16 = kani::any();
        let q: i16 = kani::any();
        kani::assume(p1 != 1 && p2 != 1 && p3 != 1 && p1 != 768 && p2 != 768 && p3 != 768);
        kani::assume(p1 != p2 && p1 != p3 && p2 != p3);
        kani::assume(q != p1 && q != p2 && q != p3 && q != 1 && q != 768);
        let v1: u32 = kani::any();
        let loc = Locator::new(kani::any(), kani::any(), kani::any());
        let ns: u32 = kani::any();
        let dur = Duration::new(kani::any(), ns);
        let mut data: Vec<u8> = Vec::new();
        {
            let mut s = ParameterListSerializer::new(&mut data);
            s.write_header();
            s.write_cdr_parameter(p1, v1);
            s.write_cdr_parameter(p2, loc);
            s.write_cdr_parameter(p3, dur);
            s.write_sentinel();
        }
        assert!(data.len() == 4 + (4 + 4) + (4 + 24) + (4 + 8) + 4, "C13: header + three parameters + sentinel");
        match ParameterList::new(&data) {
            Ok(pl) => {
                assert!(matches!(pl.get_non_optional_parameter::<u32>(p1), Ok(v) if v == v1), "C13: the u32 parameter is read back");
                assert!(matches!(pl.get_non_optional_parameter::<Locator>(p2), Ok(l) if l == loc), "C13: the Locator parameter is read back");
                assert!(matches!(pl.get_non_optional_parameter::<Duration>(p3), Ok(d) if d == dur), "C13: the Duration parameter is read back");
                assert!(matches!(pl.get_optional_parameter::<u32>(q, 77), Ok(77)), "C13: an absent optional parameter yields the default, other parameters are ignored");
                assert!(matches!(pl.get_non_optional_parameter::<u32>(q), Err(CdrError::PidNotFound(x)) if x == q), "C13: an absent mandatory parameter is PidNotFound");
            }
            Err(_) => assert!(false, "C13: a written list is readable"),
        }
        core::mem::forget(data);
    }

    /// C07/C06: PL_CDR string decoder on the boundary values of its length field.  For the length values 0 (would underflow
    /// `length - 1`), 1, 3 (exact), 4 (runs past the buffer content) and u32::MAX, little endian, over the 8-byte buffer
    /// [length, 'a', 'b', 0, 0]: String::cdr_deserialize returns Ok or Err - never a panic; length 3 yields "ab".  (A
    /// symbolic length does not finish in CBMC: to_vec() / from_utf8 over a symbolic-length slice.)  Topic names, type names
    /// and partition strings of every remote participant go through this decoder.
    /// @props C07 C06 C13
    /// @kind bounded
    /// @tier extended
    /// @timeout 900
    /// @bounds length field in {0, 1, 3, 4, u32::MAX} (concrete), 8-byte buffer
    /// @fn <String as CdrDeserialize>::cdr_deserialize, CdrDeserializer::read_bytes
    #[cfg_attr(kani, kani::proof)]
    fn c07_pl_cdr_string_decoder_boundary_lengths() {
        let lens: [u32; 5] = [0, 1, 3, 4, u32::MAX];
        let mut i = 0;
        while i < 5 {
            let len = lens[i].to_le_bytes();
            let buf: [u8; 8] = [len[0], len[1], len[2], len[3], b'a', b'b', 0, 0];
            let mut de = CdrDeserializer::new(&buf, Endianness::Little);
            let r = String::cdr_deserialize(&mut de);
            if lens[i] == 3 {
                assert!(matches!(&r, Ok(s) if s.as_bytes() == b"ab"), "C13: a well-formed string decodes to its characters");
            }
            if lens[i] == u32::MAX {
                assert!(r.is_err(), "C07: a length beyond the input is an error");
            }
            core::mem::forget(r);
            i += 1;
        }
    }

    /// C07/C06: PidIterator total: every byte string of length 4..=16 after a valid header byte order: next() returns
    /// None, Some(Ok) or Some(Err) without panic and makes progress (at most len/4 parameters).
    /// @props C07 C06 C13
    /// @kind bounded
    /// @tier quick
    /// @unwind_failure violation
    /// @bounds input length 4..=16 bytes
    /// @fn PidIterator::next, ParameterList::seek_to_pid
    #[cfg_attr(kani, kani::proof)]
    fn c07_pid_iterator_total() {
        let buf: [u8; 16] = kani::any();
        let n: usize = kani::any();
        kani::assume(n >= 4 && n <= 16);
        let pid: i16 = kani::any();
        if let Ok(pl) = ParameterList::new(&buf[..n]) {
            let r = pl.get_optional_parameter::<u32>(pid, 5);
            core::mem::forget(r);
        }
    }

    /// C13: the remaining fixed-size parameter value types.  A list written with an EntityId, a ProtocolVersion, a bool, a
    /// BuiltinEndpointSet and an i32 (arbitrary values, fixed distinct pids) is read back with exactly those values: sub-word
    /// values are padded to 4 bytes on the wire and the padding does not leak into the value.
    /// @props C13
    /// @kind proof
    /// @tier quick
    /// @timeout 1500
    /// @fn ParameterListSerializer::write_cdr_parameter, ParameterList::get_non_optional_parameter, <EntityId as CdrDeserialize>::cdr_deserialize, <ProtocolVersion as CdrDeserialize>::cdr_deserialize, <bool as CdrDeserialize>::cdr_deserialize
    #[cfg_attr(kani, kani::proof)]
    fn c13_fixed_size_parameter_values_round_trip() {
        let eid = EntityId::new(kani::any(), kani::any());
        let pv = ProtocolVersion::new(kani::any(), kani::any());
        let b: bool = kani::any();
        let set = BuiltinEndpointSet(kani::any());
        let x: i32 = kani::any();
        let mut data: Vec<u8> = Vec::new();
        {
            let mut s = ParameterListSerializer::new(&mut data);
            s.write_header();
            s.write_cdr_parameter(0x50, eid);
            s.write_cdr_parameter(0x15, pv);
            s.write_cdr_parameter(0x43, b);
            s.write_cdr_parameter(0x58, set);
            s.write_cdr_parameter(0x7001, x);
            s.write_sentinel();
        }
        assert!(data.len() == 4 + 5 * 8 + 4, "C13: every sub-word value is padded to 4 bytes");
        match ParameterList::new(&data) {
            Ok(pl) => {
                assert!(matches!(pl.get_non_optional_parameter::<EntityId>(0x50), Ok(v) if v == eid), "C13: EntityId");
                assert!(matches!(pl.get_non_optional_parameter::<ProtocolVersion>(0x15), Ok(v) if v == pv), "C13: ProtocolVersion");
                assert!(matches!(pl.get_non_optional_parameter::<bool>(0x43), Ok(v) if v == b), "C13: bool");
                assert!(matches!(pl.get_non_optional_parameter::<BuiltinEndpointSet>(0x58), Ok(v) if v == set), "C13: BuiltinEndpointSet");
                assert!(matches!(pl.get_non_optional_parameter::<i32>(0x7001), Ok(v) if v == x), "C13: i32 under a vendor-specific pid");
            }
            Err(_) => assert!(false, "C13: a written list is readable"),
        }
        core::mem::forget(data);
    }

    /// C13: large parameters.  The 16-bit parameter length is unsigned: for the declared lengths L = 32764, 32768, 32772
    /// (both sides of 2^15) a parameter of L zero bytes followed by the sentinel is found by seek_to_pid with exactly
    /// L bytes, and a parameter written after it is still found (an octet sequence such as USER_DATA of 32 KiB or more must
    /// not cut the list short).
    /// @props C13
    /// @kind bounded
    /// @tier thorough
    /// @timeout 3000
    /// @bounds one large zero-filled parameter with length in {32764, 32768, 32772} followed by a u32 parameter; little endian
    /// @fn PidIterator::next, ParameterList::seek_to_pid
    #[cfg_attr(kani, kani::proof)]
    fn c13_parameter_length_is_unsigned_16_bit() {
        let k: u8 = kani::any();
        kani::assume(k >= 7 && k <= 9);
        let l: usize = 32736 + 4 * k as usize; // 32764, 32768, 32772
        let mut data: Vec<u8> = alloc::vec![0u8; 4 + 4 + 32800 + 8 + 4];
        data[1] = 3; // PL_CDR_LE
        data[4] = 0x2c; // PID_USER_DATA
        data[5] = 0;
        data[6] = (l & 0xff) as u8;
        data[7] = (l >> 8) as u8;
        let p = 8 + l;
        data[p] = 0x58;
        data[p + 1] = 0;
        data[p + 2] = 4;
        data[p + 3] = 0;
        data[p + 4] = 0xAB;
        data[p + 8] = 1; // sentinel
        match ParameterList::new(&data) {
            Ok(pl) => {
                match pl.seek_to_pid(0x2c) {
                    Ok(Some(v)) => assert!(v.len() == l, "C13: a parameter of 32 KiB or more is read with its full length"),
                    _ => assert!(false, "C13: a parameter of 32 KiB or more is found"),
                }
                assert!(matches!(pl.get_non_optional_parameter::<u32>(0x58), Ok(0xAB)), "C13: parameters after a large one are still found");
            }
            Err(_) => assert!(false),
        }
        kani::cover!(l == 32768);
        core::mem::forget(data);
    }
