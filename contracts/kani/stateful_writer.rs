    // @unit name=stateful_writer file=dds/src/rtps/stateful_writer.rs
    // Child module of dds/src/rtps/stateful_writer.rs (C03, C04, C16): obligations on the real RtpsStatefulWriter.
    // The writer is built as a struct literal (private fields are visible to a child module) so that
    // Duration::from_millis (2u64.pow(32) loop) is not on the path; proxies are created through add_matched_reader and
    // driven to an arbitrary acknowledgement level through the public acked_changes_set (contract proved in reader_proxy_v).

    use crate::transport::types::Locator;
    use alloc::sync::Arc;

    struct NullWriter;
    impl WriteMessage for NullWriter {
        fn write_message(&self, _buf: &[u8], _locators: &[Locator]) {}
    }
    struct FixedClock;
    impl Clock for FixedClock {
        fn now(&self) -> crate::infrastructure::time::Time {
            crate::infrastructure::time::Time::new(100, 0)
        }
    }

    fn any_guid() -> Guid {
        let p: u8 = kani::any();
        let k: u8 = kani::any();
        Guid::new([p, 0, 0, 0, 0, 0, 0, 0, 0, 0, 0, 0], EntityId::new([k, 0, 0], 7))
    }
    fn any_reliability() -> ReliabilityKind {
        let r: u8 = kani::any();
        if r & 1 == 1 { ReliabilityKind::Reliable } else { ReliabilityKind::BestEffort }
    }
    fn any_durability() -> DurabilityKind {
        let d: u8 = kani::any();
        match d & 3 { 0 => DurabilityKind::Volatile, 1 => DurabilityKind::TransientLocal, 2 => DurabilityKind::Transient, _ => DurabilityKind::Persistent }
    }
    fn mk_writer() -> RtpsStatefulWriter {
        RtpsStatefulWriter {
            guid: Guid::new([7; 12], EntityId::new([1, 0, 0], 2)),
            changes: Vec::new(),
            matched_readers: Vec::new(),
            heartbeat_period: Duration::new(0, 858_993_459),
            data_max_size_serialized: 1344,
        }
    }
    fn change(sn: i64) -> CacheChange {
        CacheChange {
            kind: ChangeKind::Alive,
            writer_guid: Guid::new([7; 12], EntityId::new([1, 0, 0], 2)),
            sequence_number: sn,
            source_timestamp: None,
            instance_handle: None,
            data_value: Arc::from([1u8, 2, 3, 4].as_slice()),
        }
    }
    fn reader_proxy(guid: Guid, rel: ReliabilityKind, dur: DurabilityKind) -> ReaderProxy {
        ReaderProxy {
            remote_reader_guid: guid,
            remote_group_entity_id: EntityId::new([0, 0, 0], 0),
            reliability_kind: rel,
            durability_kind: dur,
            unicast_locator_list: Vec::new(),
            multicast_locator_list: Vec::new(),
            expects_inline_qos: false,
        }
    }

    /// Soundness kernel of wait_for_acknowledgments: is_change_acknowledged(sn) is true iff EVERY matched RELIABLE
    /// reader proxy has acknowledged at least sn (best-effort proxies never block it); and after
    /// delete_matched_reader(g) the verdict no longer depends on g while the other proxy is retained.
    /// @props C03 C16
    /// @kind bounded
    /// @tier quick
    /// @bounds 2 matched reader proxies (any reliability mix, any acknowledgement levels, all i64 query numbers)
    /// @fn RtpsStatefulWriter::is_change_acknowledged, RtpsStatefulWriter::delete_matched_reader, RtpsStatefulWriter::add_matched_reader, RtpsReaderProxy::unacked_changes
    #[cfg_attr(kani, kani::proof)]
    fn c03_is_change_acknowledged_iff_all_reliable_acked() {
        let mut w = mk_writer();
        let g1 = any_guid();
        let g2 = any_guid();
        kani::assume(g1 != g2);
        let r1 = any_reliability();
        let r2 = any_reliability();
        w.add_matched_reader(reader_proxy(g1, r1, DurabilityKind::Volatile));
        w.add_matched_reader(reader_proxy(g2, r2, DurabilityKind::Volatile));
        assert!(w.matched_readers.len() == 2);
        let a1: i64 = kani::any();
        let a2: i64 = kani::any();
        w.matched_readers[0].acked_changes_set(a1);
        w.matched_readers[1].acked_changes_set(a2);
        let acked1 = if a1 > 0 { a1 } else { 0 };   // contract of acked_changes_set from the fresh level 0
        let acked2 = if a2 > 0 { a2 } else { 0 };
        let sn: i64 = kani::any();
        let expect = (r1 != ReliabilityKind::Reliable || sn <= acked1) && (r2 != ReliabilityKind::Reliable || sn <= acked2);
        assert!(w.is_change_acknowledged(sn) == expect, "C03: acknowledged iff every reliable matched reader acknowledged it");
        // deleting reader 1 removes exactly its proxy
        w.delete_matched_reader(g1);
        assert!(w.matched_readers.len() == 1 && w.matched_readers[0].remote_reader_guid() == g2, "C16: exactly the deleted reader's proxy is removed");
        let expect_after = r2 != ReliabilityKind::Reliable || sn <= acked2;
        assert!(w.is_change_acknowledged(sn) == expect_after, "C03: a deleted reader no longer blocks acknowledgement");
        kani::cover!(expect);
        kani::cover!(!expect && expect_after);
        core::mem::forget(w);
    }

    /// ACKNACK handling: the acknowledgement level of a proxy changes only for an ACKNACK addressed to this writer, from
    /// that proxy's reader, RELIABLE, with a newer count; it then becomes max(old, base-1) (never regresses) and the
    /// function returns Some(base-1); in every other case nothing changes and None is returned.
    /// @props C03 C01
    /// @kind bounded
    /// @tier quick
    /// @bounds 1 matched reader proxy, empty writer history, ACKNACK set with num_bits == 0 (the requested-set path is covered by c01_requested_changes); all base/count values with base > i64::MIN
    /// @fn RtpsStatefulWriter::on_acknack_submessage_received, RtpsReaderProxy::acked_changes_set, RtpsReaderProxy::set_last_received_acknack_count
    #[cfg_attr(kani, kani::proof)]
    fn c03_acknack_raises_ack_level_monotonically() {
        let mut w = mk_writer();
        let g = any_guid();
        let rel = any_reliability();
        w.add_matched_reader(reader_proxy(g, rel, DurabilityKind::Volatile));
        let old_ack: i64 = kani::any();
        kani::assume(old_ack >= 0);
        w.matched_readers[0].acked_changes_set(old_ack);
        let last_count: i32 = kani::any();
        w.matched_readers[0].set_last_received_acknack_count(last_count);

        let base: i64 = kani::any();
        kani::assume(base > i64::MIN); // base == i64::MIN overflows `base - 1`: hostile value, subject of C06
        let count: i32 = kani::any();
        let src = any_guid();
        let wk: u8 = kani::any();
        let writer_id = EntityId::new([wk, 0, 0], 2);
        let acknack = AckNackSubmessage::new(true, src.entity_id(), writer_id, SequenceNumberSet::new(base, []), count);
        let ret = w.on_acknack_submessage_received(&acknack, src.prefix(), &NullWriter, &FixedClock);

        let accepted = writer_id == w.guid.entity_id() && src == g && rel == ReliabilityKind::Reliable && count > last_count;
        let new_ack = if accepted && base - 1 > old_ack { base - 1 } else { old_ack };
        // observe the level through the public predicate: unacked_changes(Some(h)) <=> h > highest_acked
        let p = &w.matched_readers[0];
        assert!(!p.unacked_changes(Some(new_ack)) && (new_ack == i64::MAX || p.unacked_changes(Some(new_ack + 1))),
            "C03: acknowledgement level is max(old, base-1) iff the ACKNACK is accepted, unchanged otherwise");
        assert!(new_ack >= old_ack);
        if accepted {
            assert!(ret == Some(base - 1));
            assert!(p.last_received_acknack_count() == count);
        } else {
            assert!(ret.is_none());
            assert!(p.last_received_acknack_count() == last_count);
        }
        kani::cover!(accepted && base - 1 > old_ack);
        kani::cover!(accepted && base - 1 < old_ack);
        kani::cover!(!accepted);
        core::mem::forget(w);
        core::mem::forget(acknack);
    }

    fn check_first_relevant(nchanges: usize) {
        let mut w = mk_writer();
        let s1: i64 = kani::any();
        let s2: i64 = kani::any();
        kani::assume(s1 >= 1 && s2 >= 1 && s1 != s2);
        if nchanges >= 1 { w.changes.push(change(s1)); }
        if nchanges >= 2 { w.changes.push(change(s2)); }
        let highest = if nchanges >= 2 { if s1 > s2 { s1 } else { s2 } } else if nchanges == 1 { s1 } else { 0 };
        let g = any_guid();
        let dur = any_durability();
        w.add_matched_reader(reader_proxy(g, any_reliability(), dur));
        assert!(w.matched_readers.len() == 1);
        let p = &w.matched_readers[0];
        assert!(p.remote_reader_guid() == g);
        match dur {
            DurabilityKind::Volatile => assert!(p.first_relevant_sample_seq_num() == highest, "C04: VOLATILE reader: history written before the match is not relevant"),
            _ => assert!(p.first_relevant_sample_seq_num() == 0, "C04: TRANSIENT_LOCAL (and stronger) reader: the whole retained history is relevant"),
        }
        assert!(p.durability() == dur);
        kani::cover!(dur == DurabilityKind::Volatile);
        kani::cover!(dur == DurabilityKind::TransientLocal);
        core::mem::forget(w);
    }

    /// Durability match-time rule: a VOLATILE reader's first relevant sample is the highest sequence number already
    /// in the writer history so nothing written before the match is relevant to it; TRANSIENT_LOCAL and stronger get 0
    /// (whole retained history relevant).  History of 2 changes in any order of sequence numbers.
    /// @props C04
    /// @kind bounded
    /// @tier quick
    /// @bounds writer history of exactly 2 changes with symbolic distinct sequence numbers >= 1
    /// @fn RtpsStatefulWriter::add_matched_reader, RtpsReaderProxy::new, RtpsReaderProxy::first_relevant_sample_seq_num
    #[cfg_attr(kani, kani::proof)]
    fn c04_first_relevant_sample_history_2() {
        check_first_relevant(2);
    }

    /// Same rule with an empty history: first relevant sample is 0 for every durability kind.
    /// @props C04
    /// @kind bounded
    /// @tier quick
    /// @bounds empty writer history
    /// @fn RtpsStatefulWriter::add_matched_reader
    #[cfg_attr(kani, kani::proof)]
    fn c04_first_relevant_sample_empty_history() {
        check_first_relevant(0);
    }

    /// Re-announcement of an already matched reader replaces its proxy instead of duplicating it, and leaves the other
    /// proxies in place (so the RTPS-level matched set tracks distinct remote readers).
    /// @props C16 C04
    /// @kind bounded
    /// @tier quick
    /// @bounds 2 matched reader proxies, empty history
    /// @fn RtpsStatefulWriter::add_matched_reader
    #[cfg_attr(kani, kani::proof)]
    fn c16_readded_reader_replaces_proxy() {
        let mut w = mk_writer();
        let g = any_guid();
        let other = any_guid();
        kani::assume(other != g);
        w.add_matched_reader(reader_proxy(other, ReliabilityKind::Reliable, DurabilityKind::TransientLocal));
        w.add_matched_reader(reader_proxy(g, ReliabilityKind::BestEffort, DurabilityKind::TransientLocal));
        assert!(w.matched_readers.len() == 2);
        w.add_matched_reader(reader_proxy(g, ReliabilityKind::Reliable, DurabilityKind::Volatile));
        assert!(w.matched_readers.len() == 2, "C16: a re-announced reader replaces its proxy");
        assert!(w.matched_readers[0].remote_reader_guid() == other && w.matched_readers[1].remote_reader_guid() == g);
        assert!(w.matched_readers[1].reliability() == ReliabilityKind::Reliable && w.matched_readers[1].durability() == DurabilityKind::Volatile);
        core::mem::forget(w);
    }

    // ---------------------------------------------------------------- C04: what the writer actually sends to a matched reader
    use core::sync::atomic::{AtomicI64, AtomicUsize, Ordering};
    use crate::rtps_messages::overall_structure::Submessage;
    static REC_DATA: AtomicUsize = AtomicUsize::new(0);
    static REC_DATA_SN: AtomicI64 = AtomicI64::new(0);
    static REC_GAP: AtomicUsize = AtomicUsize::new(0);
    static REC_GAP_START: AtomicI64 = AtomicI64::new(0);

    /// Stand-in for RtpsMessageWrite::from_submessages (rtps/message_creator.rs) used when the reader-proxy state machine
    /// is verified: instead of serializing the whole message (which CBMC does not finish), it records WHICH submessages
    /// the state machine decided to send - kind (from the real header writer of each submessage) and, for DATA and GAP, the
    /// sequence number (from the real element writer) - and returns an empty message.
    fn from_submessages_recorder(submessages: &[&(dyn Submessage + Send)], guid_prefix: GuidPrefix) -> RtpsMessageWrite {
        let mut i = 0;
        while i < submessages.len() {
            let mut hv: Vec<u8> = Vec::new();
            submessages[i].write_submessage_header_into_bytes(0, &mut hv);
            let kind = hv[0];
            if kind == 0x15 || kind == 0x08 {
                let mut ev: Vec<u8> = Vec::new();
                submessages[i].write_submessage_elements_into_bytes(&mut ev);
                if kind == 0x15 {
                    // DATA: extraFlags(2) octetsToInlineQos(2) readerId(4) writerId(4) writerSN(8)
                    let high = i32::from_le_bytes([ev[12], ev[13], ev[14], ev[15]]);
                    let low = u32::from_le_bytes([ev[16], ev[17], ev[18], ev[19]]);
                    REC_DATA.fetch_add(1, Ordering::SeqCst);
                    REC_DATA_SN.store(((high as i64) << 32) + low as i64, Ordering::SeqCst);
                } else {
                    // GAP: readerId(4) writerId(4) gapStart(8)
                    let high = i32::from_le_bytes([ev[8], ev[9], ev[10], ev[11]]);
                    let low = u32::from_le_bytes([ev[12], ev[13], ev[14], ev[15]]);
                    REC_GAP.fetch_add(1, Ordering::SeqCst);
                    REC_GAP_START.store(((high as i64) << 32) + low as i64, Ordering::SeqCst);
                }
                core::mem::forget(ev);
            }
            core::mem::forget(hv);
            i += 1;
        }
        RtpsMessageWrite::new(&crate::rtps_messages::overall_structure::RtpsMessageHeader::new(
            crate::rtps::types::PROTOCOLVERSION_2_4, crate::rtps::types::VENDOR_ID_S2E, guid_prefix), &[])
    }

    /// C04, repair path: a VOLATILE reader never gets a sample written before it was matched, also when it asks for it.
    /// Writer history: one change with an arbitrary sequence number s (1..=1000) written BEFORE the match; a RELIABLE
    /// reader proxy (VOLATILE here, TRANSIENT_LOCAL in the twin obligation) added by the real add_matched_reader, everything marked as
    /// already sent; the reader then requests s (ACKNACK / requested_changes_set).  The real write_message_reliable then
    /// sends, for a VOLATILE reader, NO DATA (a GAP starting at s instead) and, for a TRANSIENT_LOCAL reader, exactly one
    /// DATA carrying sequence number s.  The message serialization is replaced by a recorder (stub) that notes the kind
    /// and sequence number of every submessage the state machine hands over.
    /// @props C04
    /// @kind bounded
    /// @tier extended
    /// @timeout 1500
    /// @bounds writer history of 1 change (4-byte payload, not fragmented); 1 requested change; RtpsMessageWrite::from_submessages replaced by a recording stub
    /// @cbmc --unwind 6 --unwindset memcmp.0:18
    /// @fn RtpsReaderProxy::write_message_reliable, RtpsStatefulWriter::add_matched_reader, RtpsReaderProxy::next_requested_change, CacheChange::as_data_submessage
    #[cfg_attr(kani, kani::proof)]
    #[cfg_attr(kani, kani::stub(RtpsMessageWrite::from_submessages, from_submessages_recorder))]
    fn c04_requested_change_volatile_gets_gap() {
        check_c04_requested(true);
    }

    /// C04, repair path, TRANSIENT_LOCAL twin: the requested retained sample is sent as DATA with its sequence number.
    /// @props C04
    /// @kind bounded
    /// @tier extended
    /// @timeout 1500
    /// @bounds writer history of 1 change (4-byte payload, not fragmented); 1 requested change; RtpsMessageWrite::from_submessages replaced by a recording stub
    /// @cbmc --unwind 6 --unwindset memcmp.0:18
    /// @fn RtpsReaderProxy::write_message_reliable, RtpsStatefulWriter::add_matched_reader, RtpsReaderProxy::next_requested_change, CacheChange::as_data_submessage
    #[cfg_attr(kani, kani::proof)]
    #[cfg_attr(kani, kani::stub(RtpsMessageWrite::from_submessages, from_submessages_recorder))]
    fn c04_requested_change_transient_local_gets_data() {
        check_c04_requested(false);
    }

    fn check_c04_requested(volatile: bool) {
        let mut w = mk_writer();
        let s: i64 = kani::any();
        kani::assume(s >= 1 && s <= 1000);
        w.changes.push(change(s));
        let g = any_guid();
        w.add_matched_reader(reader_proxy(g, ReliabilityKind::Reliable,
            if volatile { DurabilityKind::Volatile } else { DurabilityKind::TransientLocal }));
        let writer_id = w.guid.entity_id();
        let prefix = w.guid.prefix();
        let hb = w.heartbeat_period;
        let p = &mut w.matched_readers[0];
        p.set_highest_sent_seq_num(s);
        p.requested_changes_set([s].into_iter());
        let changes = [change(s)];
        p.write_message_reliable(writer_id, &changes, 1344, hb, &NullWriter, &FixedClock, prefix);
        let nd = REC_DATA.load(Ordering::SeqCst);
        let ng = REC_GAP.load(Ordering::SeqCst);
        if volatile {
            assert!(nd == 0, "C04: a VOLATILE reader is never sent a sample written before it was matched, also on request");
            assert!(ng == 1 && REC_GAP_START.load(Ordering::SeqCst) == s, "C04: it is told with a GAP that the number is irrelevant");
        } else {
            assert!(nd == 1 && REC_DATA_SN.load(Ordering::SeqCst) == s, "C04: a TRANSIENT_LOCAL reader gets the requested retained sample");
            assert!(ng == 0);
        }
        core::mem::forget(w);
    }
