    // @unit name=user_reader file=dds/src/dcps/dcps_domain_participant/user_defined_data_reader.rs unwind=3 unwindset=memcmp.0:18 loops=status_mask::StatusMask:15
    // Child module of user_defined_data_reader.rs (C19, C16, C23): status bookkeeping of the REAL UserDefinedDataReader,
    // built through UserDefinedDataReader::new with a real RtpsStatefulReader.
    // @assume C23: UserDefinedDataReader::read is replaced by a stub stating its contract (the C20 obligations are the evidence for that contract, at the C20 bound of one stored sample); with the real body inlined twice CBMC does not finish within 40 min. Under native replay (no stubbing) the REAL read runs, so a replayed counterexample is a counterexample of the real code
    // @assume status counters below i32::MAX (2^31 rejections / matches are out of scope; += 1 would overflow there)

    use crate::transport::types::{EntityId, Guid, ReliabilityKind};

    fn mk_user_reader() -> UserDefinedDataReader {
        let g = Guid::new([1; 12], EntityId::new([1, 2, 3], 7));
        UserDefinedDataReader::new(
            InstanceHandle::new([9; 16]),
            DataReaderQos::const_default(),
            String::new(),
            None,
            StatusMask::default(),
            RtpsStatefulReader::new(g, ReliabilityKind::BestEffort),
        )
    }
    fn any_reason() -> SampleRejectedStatusKind {
        let c: u8 = kani::any();
        match c & 3 {
            0 => SampleRejectedStatusKind::RejectedByInstancesLimit,
            1 => SampleRejectedStatusKind::RejectedBySamplesLimit,
            2 => SampleRejectedStatusKind::RejectedBySamplesPerInstanceLimit,
            _ => SampleRejectedStatusKind::NotRejected,
        }
    }

    /// Sample-rejected status reporting (C19 "reported through the sample-rejected status with the matching reason"):
    /// from ANY previous status (any counters below i32::MAX, any last reason / handle) increment_sample_rejected_status(h,
    /// reason) makes total_count and total_count_change one larger and records exactly h and reason;
    /// get_sample_rejected_status returns that status and resets only the change counter.
    /// @props C19
    /// @kind proof
    /// @tier quick
    /// @fn UserDefinedDataReader::increment_sample_rejected_status, UserDefinedDataReader::get_sample_rejected_status
    #[cfg_attr(kani, kani::proof)]
    fn c19_sample_rejected_status_counts_and_reason() {
        let mut r = mk_user_reader();
        let t0: i32 = kani::any();
        let c0: i32 = kani::any();
        kani::assume(t0 >= 0 && t0 < i32::MAX && c0 >= 0 && c0 <= t0);
        r.sample_rejected_status.total_count = t0;
        r.sample_rejected_status.total_count_change = c0;
        r.sample_rejected_status.last_reason = any_reason();
        let hb: [u8; 16] = kani::any();
        let h = InstanceHandle::new(hb);
        let reason = any_reason();
        r.increment_sample_rejected_status(h, reason);
        assert!(r.sample_rejected_status.total_count == t0 + 1 && r.sample_rejected_status.total_count_change == c0 + 1,
            "C19: one rejection counts once");
        assert!(r.sample_rejected_status.last_reason == reason && r.sample_rejected_status.last_instance_handle == h,
            "C19: the status carries the reason and the instance of the last rejected sample");
        let s = r.get_sample_rejected_status();
        assert!(s.total_count == t0 + 1 && s.total_count_change == c0 + 1 && s.last_reason == reason && s.last_instance_handle == h);
        assert!(r.sample_rejected_status.total_count == t0 + 1 && r.sample_rejected_status.total_count_change == 0,
            "C19: reading the status resets only the change counter");
        kani::cover!(t0 == i32::MAX - 1);
        core::mem::forget(r);
    }

    // ---------------------------------------------------------------- C23: read_next_instance / take_next_instance
    use crate::dcps::dcps_domain_participant::data_reader_entity::{InstanceState, ReaderSample};
    use crate::transport::types::ChangeKind;
    use alloc::sync::Arc;

    fn ihb(b: u8) -> InstanceHandle {
        InstanceHandle::new([b, 0, 0, 0, 0, 0, 0, 0, 0, 0, 0, 0, 0, 0, 0, 0])
    }

    /// Contract of UserDefinedDataReader::read for a requested instance handle and masks ANY, as decided by the C20
    /// obligations (data_reader_entity.rs: the samples of the requested instance that match the masks are returned, NoData
    /// iff there is none, BadParameter for an unknown instance).  Used INSTEAD of the body of read when read_next_instance
    /// is verified (modular verification: the caller is checked against the callee's contract, not its body - inlining
    /// read twice does not finish in CBMC within 40 min).
    fn read_contract_stub(
        this: &mut UserDefinedDataReader,
        max_samples: i32,
        _sample_states: &[SampleStateKind],
        _view_states: &[ViewStateKind],
        _instance_states: &[InstanceStateKind],
        specific_instance_handle: &Option<InstanceHandle>,
    ) -> DdsResult<SampleList> {
        let Some(h) = specific_instance_handle else { return Err(DdsError::BadParameter) };
        if !this.reader.instances.iter().any(|x| x.handle() == h) {
            return Err(DdsError::BadParameter);
        }
        // first stored sample of the requested instance (the harnesses hold at most one sample per instance)
        let mut found: Option<usize> = None;
        let mut i = 0;
        while i < this.reader.sample_list.len() {
            if found.is_none() && &this.reader.sample_list[i].instance_handle == h && max_samples > 0 {
                found = Some(i);
            }
            i += 1;
        }
        let Some(k) = found else { return Err(DdsError::NoData) };
        let s = &this.reader.sample_list[k];
        let mut out: SampleList = Vec::new();
        out.push((s.data_value.clone(), crate::infrastructure::sample_info::SampleInfo {
            sample_state: s.sample_state,
            view_state: ViewStateKind::New,
            instance_state: InstanceStateKind::Alive,
            disposed_generation_count: s.disposed_generation_count,
            no_writers_generation_count: s.no_writers_generation_count,
            sample_rank: 0,
            generation_rank: 0,
            absolute_generation_rank: 0,
            source_timestamp: s.source_timestamp,
            instance_handle: s.instance_handle,
            publication_handle: InstanceHandle::new(s.writer_guid),
            valid_data: true,
        }));
        Ok(out)
    }

    /// C23: read_next_instance skips instances without matching samples.  A reader that knows instance 1 (no sample left,
    /// e.g. all taken; twin obligation: one NOT_ALIVE dispose sample) and instance 2 (one ALIVE sample); masks ANY, max_samples 5; previous handle arbitrary among
    /// {none, 0, 1, 2}: for every previous handle below 2 the call returns the sample of instance 2 - the first instance
    /// above the given handle that HAS samples matching the masks - and NoData only for previous = 2, when no such
    /// instance exists.
    /// @props C23
    /// @kind bounded
    /// @tier quick
    /// @timeout 1200
    /// @bounds 2 known instances, 1 stored sample, masks ANY; UserDefinedDataReader::read replaced by its contract (stub)
    /// @cbmc --unwind 4 --unwindset memcmp.0:18
    /// @fn UserDefinedDataReader::read_next_instance, DataReaderEntity::next_instance, DataReaderEntity::read
    #[cfg_attr(kani, kani::proof)]
    #[cfg_attr(kani, kani::stub(alloc::fmt::format, verif_support::fmt_format_stub))]
    #[cfg_attr(kani, kani::stub(UserDefinedDataReader::read, read_contract_stub))]
    fn c23_read_next_instance_skips_instances_without_matching_samples() {
        check_c23_read(false);
    }

    /// C23 (read_next_instance): instance 1 holds ONE NOT_ALIVE (dispose) sample - it matches masks ANY, so the walk must visit
    /// instance 1 first, not skip it for lack of an ALIVE sample.
    /// @props C23
    /// @kind bounded
    /// @tier quick
    /// @timeout 1200
    /// @bounds 2 known instances, 2 stored samples (one NOT_ALIVE_DISPOSED, one ALIVE), masks ANY; read/take replaced by its contract (stub)
    /// @cbmc --unwind 4 --unwindset memcmp.0:18
    /// @fn UserDefinedDataReader::read_next_instance, DataReaderEntity::next_instance
    #[cfg_attr(kani, kani::proof)]
    #[cfg_attr(kani, kani::stub(alloc::fmt::format, verif_support::fmt_format_stub))]
    #[cfg_attr(kani, kani::stub(UserDefinedDataReader::read, read_contract_stub))]
    fn c23_read_next_instance_visits_instance_with_only_not_alive_samples() {
        check_c23_read(true);
    }

    fn check_c23_read(inst1_has_sample: bool) {
        let mut r = mk_user_reader();
        r.reader.enabled = true;
        r.reader.instances.push(InstanceState::new(ihb(1)));
        r.reader.instances.push(InstanceState::new(ihb(2)));
        // instance 1 either has no sample left or holds one NOT_ALIVE (dispose) sample; instance 2 holds one sample of an
        // arbitrary kind: a sample matches masks ANY whatever its kind
        if inst1_has_sample {
            r.reader.sample_list.push(ReaderSample {
                kind: ChangeKind::NotAliveDisposed,
                writer_guid: [7; 16],
                instance_handle: ihb(1),
                source_timestamp: None,
                data_value: Arc::from([41u8].as_slice()),
                sample_state: SampleStateKind::NotRead,
                disposed_generation_count: 0,
                no_writers_generation_count: 0,
            });
        }
        r.reader.sample_list.push(ReaderSample {
            kind: ChangeKind::Alive,
            writer_guid: [7; 16],
            instance_handle: ihb(2),
            source_timestamp: None,
            data_value: Arc::from([42u8].as_slice()),
            sample_state: SampleStateKind::NotRead,
            disposed_generation_count: 0,
            no_writers_generation_count: 0,
        });
        let sel: u8 = kani::any();
        kani::assume(sel <= 3);
        let previous = if sel == 0 { None } else { Some(ihb(sel - 1)) };
        let res = r.read_next_instance(5, &previous,
            &[SampleStateKind::Read, SampleStateKind::NotRead],
            &[ViewStateKind::New, ViewStateKind::NotNew],
            &[InstanceStateKind::Alive, InstanceStateKind::NotAliveDisposed, InstanceStateKind::NotAliveNoWriters]);
        if sel <= 1 && inst1_has_sample {
            match &res {
                Ok(l) => assert!(l.len() == 1 && l[0].1.instance_handle == ihb(1) && l[0].0[0] == 41,
                    "C23: an instance whose only samples are NOT_ALIVE ones still has matching samples and is visited first"),
                Err(_) => assert!(false, "C23: NoData only if no instance above the given handle has matching samples"),
            }
        } else if sel <= 2 {
            match &res {
                Ok(l) => assert!(l.len() == 1 && l[0].1.instance_handle == ihb(2) && l[0].0[0] == 42,
                    "C23: the samples of the first instance above the given handle that has matching samples are returned"),
                Err(_) => assert!(false, "C23: NoData only if no instance above the given handle has matching samples"),
            }
        } else {
            assert!(matches!(&res, Err(DdsError::NoData)), "C23: NoData when no further instance has matching samples");
        }
        kani::cover!(sel == 0);
        kani::cover!(sel == 3);
        core::mem::forget(res);
        core::mem::forget(r);
    }

    /// C23: take_next_instance skips instances without matching samples (twin of the read obligation).  A reader that knows instance 1 (no sample left,
    /// e.g. all taken; twin obligation: one NOT_ALIVE dispose sample) and instance 2 (one ALIVE sample); masks ANY, max_samples 5; previous handle arbitrary among
    /// {none, 0, 1, 2}: for every previous handle below 2 the call returns the sample of instance 2 - the first instance
    /// above the given handle that HAS samples matching the masks - and NoData only for previous = 2, when no such
    /// instance exists.
    /// @props C23
    /// @kind bounded
    /// @tier quick
    /// @timeout 1200
    /// @bounds 2 known instances, 1 stored sample, masks ANY; UserDefinedDataReader::take replaced by its contract (stub; removal of the returned samples is not modelled, it does not influence the walk)
    /// @cbmc --unwind 4 --unwindset memcmp.0:18
    /// @fn UserDefinedDataReader::take_next_instance, DataReaderEntity::next_instance, DataReaderEntity::take
    #[cfg_attr(kani, kani::proof)]
    #[cfg_attr(kani, kani::stub(alloc::fmt::format, verif_support::fmt_format_stub))]
    #[cfg_attr(kani, kani::stub(UserDefinedDataReader::take, read_contract_stub))]
    fn c23_take_next_instance_skips_instances_without_matching_samples() {
        check_c23_take(false);
    }

    /// C23 (take_next_instance): instance 1 holds ONE NOT_ALIVE (dispose) sample - it matches masks ANY, so the walk must visit
    /// instance 1 first, not skip it for lack of an ALIVE sample.
    /// @props C23
    /// @kind bounded
    /// @tier quick
    /// @timeout 1200
    /// @bounds 2 known instances, 2 stored samples (one NOT_ALIVE_DISPOSED, one ALIVE), masks ANY; read/take replaced by its contract (stub)
    /// @cbmc --unwind 4 --unwindset memcmp.0:18
    /// @fn UserDefinedDataReader::take_next_instance, DataReaderEntity::next_instance
    #[cfg_attr(kani, kani::proof)]
    #[cfg_attr(kani, kani::stub(alloc::fmt::format, verif_support::fmt_format_stub))]
    #[cfg_attr(kani, kani::stub(UserDefinedDataReader::take, read_contract_stub))]
    fn c23_take_next_instance_visits_instance_with_only_not_alive_samples() {
        check_c23_take(true);
    }

    fn check_c23_take(inst1_has_sample: bool) {
        let mut r = mk_user_reader();
        r.reader.enabled = true;
        r.reader.instances.push(InstanceState::new(ihb(1)));
        r.reader.instances.push(InstanceState::new(ihb(2)));
        // instance 1 either has no sample left or holds one NOT_ALIVE (dispose) sample; instance 2 holds one sample of an
        // arbitrary kind: a sample matches masks ANY whatever its kind
        if inst1_has_sample {
            r.reader.sample_list.push(ReaderSample {
                kind: ChangeKind::NotAliveDisposed,
                writer_guid: [7; 16],
                instance_handle: ihb(1),
                source_timestamp: None,
                data_value: Arc::from([41u8].as_slice()),
                sample_state: SampleStateKind::NotRead,
                disposed_generation_count: 0,
                no_writers_generation_count: 0,
            });
        }
        r.reader.sample_list.push(ReaderSample {
            kind: ChangeKind::Alive,
            writer_guid: [7; 16],
            instance_handle: ihb(2),
            source_timestamp: None,
            data_value: Arc::from([42u8].as_slice()),
            sample_state: SampleStateKind::NotRead,
            disposed_generation_count: 0,
            no_writers_generation_count: 0,
        });
        let sel: u8 = kani::any();
        kani::assume(sel <= 3);
        let previous = if sel == 0 { None } else { Some(ihb(sel - 1)) };
        let res = r.take_next_instance(5, &previous,
            &[SampleStateKind::Read, SampleStateKind::NotRead],
            &[ViewStateKind::New, ViewStateKind::NotNew],
            &[InstanceStateKind::Alive, InstanceStateKind::NotAliveDisposed, InstanceStateKind::NotAliveNoWriters]);
        if sel <= 1 && inst1_has_sample {
            match &res {
                Ok(l) => assert!(l.len() == 1 && l[0].1.instance_handle == ihb(1) && l[0].0[0] == 41,
                    "C23: an instance whose only samples are NOT_ALIVE ones still has matching samples and is visited first"),
                Err(_) => assert!(false, "C23: NoData only if no instance above the given handle has matching samples"),
            }
        } else if sel <= 2 {
            match &res {
                Ok(l) => assert!(l.len() == 1 && l[0].1.instance_handle == ihb(2) && l[0].0[0] == 42,
                    "C23: the samples of the first instance above the given handle that has matching samples are returned"),
                Err(_) => assert!(false, "C23: NoData only if no instance above the given handle has matching samples"),
            }
        } else {
            assert!(matches!(&res, Err(DdsError::NoData)), "C23: NoData when no further instance has matching samples");
        }
        kani::cover!(sel == 0);
        kani::cover!(sel == 3);
        core::mem::forget(res);
        core::mem::forget(r);
    }
