    // @unit name=user_reader file=dds/src/dcps/dcps_domain_participant/user_defined_data_reader.rs unwind=3 unwindset=memcmp.0:18 loops=status_mask::StatusMask:15
    // Child module of user_defined_data_reader.rs (C19, C16, C23): status bookkeeping of the REAL UserDefinedDataReader,
    // built through UserDefinedDataReader::new with a real RtpsStatefulReader.
    // @assume status counters below i32::MAX (2^31 rejections / matches are out of scope; += 1 would overflow there)

    use crate::transport::types::{EntityId, Guid, ReliabilityKind};

    fn mk_user_reader() -> UserDefinedDataReader {
        let g = Guid::new([1; 12], EntityId::new([1, 2, 3], 7));
        UserDefinedDataReader::new(
            InstanceHandle::new([9; 16]),
            DataReaderQos::const_default(),
            String::new(),
            None,
            StatusMask::default(),
            RtpsStatefulReader::new(g, ReliabilityKind::BestEffort),
        )
    }
    fn any_reason() -> SampleRejectedStatusKind {
        let c: u8 = kani::any();
        match c & 3 {
            0 => SampleRejectedStatusKind::RejectedByInstancesLimit,
            1 => SampleRejectedStatusKind::RejectedBySamplesLimit,
            2 => SampleRejectedStatusKind::RejectedBySamplesPerInstanceLimit,
            _ => SampleRejectedStatusKind::NotRejected,
        }
    }

    /// Sample-rejected status reporting (C19 "reported through the sample-rejected status with the matching reason"):
    /// from ANY previous status (any counters below i32::MAX, any last reason / handle) increment_sample_rejected_status(h,
    /// reason) makes total_count and total_count_change one larger and records exactly h and reason;
    /// get_sample_rejected_status returns that status and resets only the change counter.
    /// @props C19
    /// @kind proof
    /// @tier quick
    /// @fn UserDefinedDataReader::increment_sample_rejected_status, UserDefinedDataReader::get_sample_rejected_status
    #[cfg_attr(kani, kani::proof)]
    fn c19_sample_rejected_status_counts_and_reason() {
        let mut r = mk_user_reader();
        let t0: i32 = kani::any();
        let c0: i32 = kani::any();
        kani::assume(t0 >= 0 && t0 < i32::MAX && c0 >= 0 && c0 <= t0);
        r.sample_rejected_status.total_count = t0;
        r.sample_rejected_status.total_count_change = c0;
        r.sample_rejected_status.last_reason = any_reason();
        let hb: [u8; 16] = kani::any();
        let h = InstanceHandle::new(hb);
        let reason = any_reason();
        r.increment_sample_rejected_status(h, reason);
        assert!(r.sample_rejected_status.total_count == t0 + 1 && r.sample_rejected_status.total_count_change == c0 + 1,
            "C19: one rejection counts once");
        assert!(r.sample_rejected_status.last_reason == reason && r.sample_rejected_status.last_instance_handle == h,
            "C19: the status carries the reason and the instance of the last rejected sample");
        let s = r.get_sample_rejected_status();
        assert!(s.total_count == t0 + 1 && s.total_count_change == c0 + 1 && s.last_reason == reason && s.last_instance_handle == h);
        assert!(r.sample_rejected_status.total_count == t0 + 1 && r.sample_rejected_status.total_count_change == 0,
            "C19: reading the status resets only the change counter");
        kani::cover!(t0 == i32::MAX - 1);
        core::mem::forget(r);
    }
