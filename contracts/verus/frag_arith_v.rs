// @unit name=frag_arith_v
// Route V unit (C05): fragmentation arithmetic, unbounded.  The fragment producer CacheChange::as_data_frag_submessage
// (dds/src/rtps/cache_change.rs), the fragment counter total_fragments_expected (dds/src/rtps/writer_proxy.rs), the struct
// DataFragSubmessage with its constructor and the two accessors the counter uses, and SerializedDataFragment::new are
// copied verbatim on every run.  Opaque: EntityId, Guid, ParameterList, Data, ChangeKind, Time (the proofs hold for every
// value of them).
// @assume Arc<[u8]>::len / clone follow vstd's specifications (clone preserves the view); Data::new(arc) is an opaque wrapper (external_body constructor `data_from_arc`, trusted: struct literal `Self(data)` in submessage_elements.rs)
// @assume u32::is_multiple_of follows vstd's specification of it
// @assume preconditions of the producer: 1 <= data_max_size_serialized <= 65535 (established by the transport: C38 proves 8 <= fragment_size <= 65000 for the UDP factory) and payload length <= u32::MAX; 64-bit usize
use vstd::prelude::*;
use std::sync::Arc;
use core::ops::Range;
verus! {

global size_of usize == 8;

#[verifier::external_body] struct EntityId { _p: () }
#[verifier::external_body] struct Guid { _p: () }
#[verifier::external_body] struct ParameterList { _p: () }
#[verifier::external_body] struct Data { _p: () }
#[verifier::external_body] struct ChangeKind { _p: () }
#[verifier::external_body] struct Time { _p: () }

//@extract file=dds/src/transport/types.rs item="type SequenceNumber"
//@end
//@extract file=dds/src/transport/types.rs item="type Long"
//@end
//@extract file=dds/src/transport/types.rs item="type UnsignedLong"
//@end
//@extract file=dds/src/rtps_messages/types.rs item="type FragmentNumber"
//@end
//@extract file=dds/src/rtps_messages/types.rs item="type SubmessageFlag"
//@end

uninterp spec fn data_view(d: Data) -> Seq<u8>;

#[verifier::external_body]
fn data_from_arc(a: Arc<[u8]>) -> (d: Data)
    ensures data_view(d) == a@,
{ unimplemented!() }

#[verifier::external_body]
fn parameter_list_new_empty() -> (p: ParameterList)
{ unimplemented!() }

fn min(a: usize, b: usize) -> (r: usize)
    ensures r == (if a <= b { a } else { b }),
{ if a <= b { a } else { b } }

//@extract file=dds/src/rtps_messages/submessage_elements.rs item="struct SerializedDataFragment"
//@end

impl SerializedDataFragment {
//@obligation name=serialized_data_fragment_new at=new#1 props=C05 kind=proof tier=quick fn=SerializedDataFragment::new
//@  constructor stores exactly the data and the range
//@extract file=dds/src/rtps_messages/submessage_elements.rs impl="impl SerializedDataFragment" item="fn new" ret=r
//@spec
        ensures r.data == data, r.range == range,
//@end
    /// the bytes this fragment denotes (what AsRef<[u8]> returns: data[range.start..range.end])
    spec fn bytes(self) -> Seq<u8> {
        data_view(self.data).subrange(self.range.start as int, self.range.end as int)
    }
}

//@extract file=dds/src/rtps_messages/submessages/data_frag.rs item="struct DataFragSubmessage"
//@end

impl DataFragSubmessage {
//@obligation name=data_frag_submessage_new at=new#2 props=C05 kind=proof tier=quick fn=DataFragSubmessage::new
//@  constructor stores every argument in the field of the same name
//@extract file=dds/src/rtps_messages/submessages/data_frag.rs impl="impl DataFragSubmessage" item="fn new" ret=r
//@spec
        ensures
            r.writer_sn == writer_sn, r.fragment_starting_num == fragment_starting_num,
            r.fragments_in_submessage == fragments_in_submessage, r.fragment_size == fragment_size,
            r.data_size == data_size, r.serialized_payload == serialized_payload,
            r.reader_id == reader_id, r.writer_id == writer_id, r.key_flag == key_flag,
//@end

//@obligation name=fragment_size props=C05 kind=proof tier=quick fn=DataFragSubmessage::fragment_size
//@  accessor
//@extract file=dds/src/rtps_messages/submessages/data_frag.rs impl="impl DataFragSubmessage" item="fn fragment_size" ret=r
//@spec
        ensures r == self.fragment_size,
//@end

//@obligation name=data_size props=C05 kind=proof tier=quick fn=DataFragSubmessage::data_size
//@  accessor
//@extract file=dds/src/rtps_messages/submessages/data_frag.rs impl="impl DataFragSubmessage" item="fn data_size" ret=r
//@spec
        ensures r == self.data_size,
//@end
}

/// number of fragments of a payload of length l cut into pieces of size f: ceil(l / f)
spec fn nfrag(l: int, f: int) -> int
    recommends f > 0, l >= 0,
{
    if l % f == 0 { l / f } else { l / f + 1 }
}

//@obligation name=total_fragments_expected props=C05 kind=proof tier=quick fn=total_fragments_expected
//@  for fragment_size != 0 the reader's expected fragment count is ceil(data_size / fragment_size), no overflow
//@extract file=dds/src/rtps/writer_proxy.rs item="fn total_fragments_expected" ret=r
//@spec
    requires data_frag_submessage.fragment_size != 0,
    ensures r as int == nfrag(data_frag_submessage.data_size as int, data_frag_submessage.fragment_size as int),
//@proof
        assert(data_frag_submessage.fragment_size as u32 != 0);
        let ghost l = data_frag_submessage.data_size as int;
        let ghost f = data_frag_submessage.fragment_size as int;
        assert(l / f <= l) by (nonlinear_arith) requires l >= 0, f >= 1;
        assert(l % f != 0 ==> l / f < l) by (nonlinear_arith) requires l >= 0, f >= 1;
//@end

//@extract file=dds/src/transport/types.rs item="struct CacheChange"
//@end

impl CacheChange {
//@obligation name=as_data_frag_submessage props=C05 kind=proof tier=quick fn=CacheChange::as_data_frag_submessage
//@  fragment k (0-based) of a payload of length L cut at f: fragment_starting_num == k+1, exactly one fragment, declared
//@  fragment_size == f and data_size == L without truncation, and the carried bytes are payload[k*f .. min((k+1)*f, L)) -
//@  a non-empty range inside the payload; sequence number is the change's
//@extract file=dds/src/rtps/cache_change.rs impl="impl CacheChange" item="fn as_data_frag_submessage" ret=r
//@rewrite 1 "core::cmp::min(" => "min("
//@rewrite 1 "self.data_value.clone().into()" => "data_from_arc(self.data_value.clone())"
//@rewrite 1 "ParameterList::new(Vec::new())" => "parameter_list_new_empty()"
//@spec
        requires
            1 <= data_max_size_serialized <= 65535,
            self.data_value@.len() <= u32::MAX,
            (fragment_number as int) < nfrag(self.data_value@.len() as int, data_max_size_serialized as int),
        ensures
            r.writer_sn == self.sequence_number,
            r.fragment_starting_num as int == fragment_number + 1,
            r.fragments_in_submessage == 1,
            r.fragment_size as int == data_max_size_serialized,
            r.data_size as int == self.data_value@.len(),
            r.serialized_payload.range.start as int == frag_lo(fragment_number as int, data_max_size_serialized as int),
            r.serialized_payload.range.end as int == frag_hi(fragment_number as int, data_max_size_serialized as int, self.data_value@.len() as int),
            r.serialized_payload.range.start < r.serialized_payload.range.end <= self.data_value@.len(),
            r.serialized_payload.bytes() == self.data_value@.subrange(
                frag_lo(fragment_number as int, data_max_size_serialized as int),
                frag_hi(fragment_number as int, data_max_size_serialized as int, self.data_value@.len() as int)),
//@proof
        let ghost l = self.data_value@.len() as int;
        let ghost f = data_max_size_serialized as int;
        let ghost k = fragment_number as int;
        lemma_frag_in_range(k, f, l);
        assert(k * f < l);
        assert((k + 1) * f == k * f + f) by (nonlinear_arith);
        assert((k + 1) * f <= 0x1_0000_FFFE) by (nonlinear_arith) requires k * f < l, l <= 0xFFFF_FFFF, f <= 65535, (k + 1) * f == k * f + f;
        assert(k + 1 <= 0xFFFF_FFFF) by (nonlinear_arith) requires k * f < l, l <= 0xFFFF_FFFF, f >= 1, k >= 0;
//@end
}

spec fn frag_lo(k: int, f: int) -> int { k * f }
spec fn frag_hi(k: int, f: int, l: int) -> int { if (k + 1) * f <= l { (k + 1) * f } else { l } }

/// k < ceil(l/f)  ==>  k*f < l
proof fn lemma_frag_in_range(k: int, f: int, l: int)
    requires f >= 1, l >= 0, 0 <= k < nfrag(l, f),
    ensures k * f < l,
{
    assert(l == f * (l / f) + l % f) by (nonlinear_arith) requires f >= 1;
    assert(0 <= l % f < f) by (nonlinear_arith) requires f >= 1, l >= 0;
    if l % f == 0 {
        assert(k * f <= (l / f - 1) * f) by (nonlinear_arith) requires k <= l / f - 1, f >= 1;
        assert((l / f - 1) * f == f * (l / f) - f) by (nonlinear_arith);
    } else {
        assert(k * f <= (l / f) * f) by (nonlinear_arith) requires k <= l / f, f >= 1;
        assert((l / f) * f == f * (l / f)) by (nonlinear_arith);
    }
}

//@obligation name=lemma_fragments_tile_payload props=C05 kind=proof tier=quick fn=CacheChange::as_data_frag_submessage,total_fragments_expected
//@  TILING (induction on the fragment count, all L >= 0 and f >= 1): concatenating the byte ranges of fragments 0..n in
//@  fragment-number order gives payload[0 .. min(n*f, L)); for n == ceil(L/f) that is the whole payload - the fragments
//@  are adjacent, disjoint and cover [0, L) exactly, including L = k*f and k*f +- 1
proof fn lemma_fragments_tile_payload(payload: Seq<u8>, f: int, n: int)
    requires f >= 1, 0 <= n <= nfrag(payload.len() as int, f),
    ensures
        concat_frags(payload, f, n) == payload.subrange(0, if n * f <= payload.len() { n * f } else { payload.len() as int }),
        n == nfrag(payload.len() as int, f) ==> concat_frags(payload, f, n) == payload,
    decreases n,
{
    let l = payload.len() as int;
    if n == 0 {
        assert(0 * f == 0) by (nonlinear_arith);
        assert(concat_frags(payload, f, 0) == Seq::<u8>::empty());
        assert(payload.subrange(0, 0) == Seq::<u8>::empty());
    } else {
        lemma_fragments_tile_payload(payload, f, n - 1);
        lemma_frag_in_range(n - 1, f, l);
        assert((n - 1) * f < l);
        assert(((n - 1) + 1) * f == n * f) by (nonlinear_arith);
        assert(n * f == (n - 1) * f + f) by (nonlinear_arith);
        let lo = frag_lo(n - 1, f);
        let hi = frag_hi(n - 1, f, l);
        assert(lo == (n - 1) * f);
        assert(hi == if n * f <= l { n * f } else { l });
        assert(concat_frags(payload, f, n) == concat_frags(payload, f, n - 1) + payload.subrange(lo, hi));
        assert(payload.subrange(0, lo) + payload.subrange(lo, hi) == payload.subrange(0, hi));
    }
    if n == nfrag(l, f) {
        assert(n * f >= l) by {
            assert(l == f * (l / f) + l % f) by (nonlinear_arith) requires f >= 1;
            assert(0 <= l % f < f) by (nonlinear_arith) requires f >= 1, l >= 0;
            if l % f == 0 {
                assert((l / f) * f == f * (l / f)) by (nonlinear_arith);
            } else {
                assert((l / f + 1) * f == f * (l / f) + f) by (nonlinear_arith);
            }
        }
        assert(payload.subrange(0, l) == payload);
    }
}

/// the reassembly the reader performs: fragments 0..n appended in fragment-number order
spec fn concat_frags(payload: Seq<u8>, f: int, n: int) -> Seq<u8>
    decreases n,
{
    if n <= 0 { Seq::<u8>::empty() } else {
        concat_frags(payload, f, n - 1) + payload.subrange(frag_lo(n - 1, f), frag_hi(n - 1, f, payload.len() as int))
    }
}

} // verus!
fn main() {}
