// @unit name=writer_proxy_v
// Route V unit (C01, C02, C03): the scalar reliability state machine of dds/src/rtps/writer_proxy.rs.
// The struct and every method below are copied verbatim from /repo on every run; the other field types are
// opaque (the proofs hold for every value of them).  `max` binds to the verified local definition below
// (core::cmp::max is generic; rewrite rule 5 of DESIGN.md 2.2).
// @assume RtpsWriterProxy::wf (first_available_seq_num > i64::MIN, highest_received_change_sn < i64::MAX) is a precondition here; it is established by RtpsWriterProxy::new (proved below) and preserved by the methods for non-hostile arguments; hostile HEARTBEAT/GAP values are the subject of C06
use vstd::prelude::*;
verus! {

#[verifier::external_body] struct Guid { _p: () }
#[verifier::external_body] struct Locator { _p: () }
#[verifier::external_body] struct EntityId { _p: () }
#[verifier::external_body] struct DataFragSubmessage { _p: () }
#[verifier::external_body] struct ReliabilityKind { _p: () }

//@extract file=dds/src/transport/types.rs item="type SequenceNumber"
//@end
//@extract file=dds/src/transport/types.rs item="type Long"
//@end
//@extract file=dds/src/rtps_messages/types.rs item="type Count"
//@end

fn max(a: i64, b: i64) -> (r: i64)
    ensures r == (if a >= b { a } else { b }),
{ if a >= b { a } else { b } }

//@extract file=dds/src/rtps/writer_proxy.rs item="struct RtpsWriterProxy"
//@end

impl RtpsWriterProxy {
    spec fn wf(self) -> bool {
        self.first_available_seq_num > i64::MIN && self.highest_received_change_sn < i64::MAX
    }
    /// abstract view: the highest sequence number below which nothing is MISSING or UNKNOWN
    spec fn spec_available_max(self) -> int {
        if self.first_available_seq_num - 1 >= self.highest_received_change_sn { self.first_available_seq_num - 1 } else { self.highest_received_change_sn as int }
    }
    spec fn same_but_seq(self, o: Self) -> bool {
        self.remote_writer_guid == o.remote_writer_guid && self.unicast_locator_list == o.unicast_locator_list
        && self.multicast_locator_list == o.multicast_locator_list && self.remote_group_entity_id == o.remote_group_entity_id
        && self.must_send_acknacks == o.must_send_acknacks && self.last_received_heartbeat_count == o.last_received_heartbeat_count
        && self.last_received_heartbeat_frag_count == o.last_received_heartbeat_frag_count && self.acknack_count == o.acknack_count
        && self.nack_frag_count == o.nack_frag_count && self.frag_buffer == o.frag_buffer && self.reliability == o.reliability
    }

//@obligation name=available_changes_max props=C01,C02,C03 kind=proof tier=quick fn=RtpsWriterProxy::available_changes_max
//@  returns max(first_available - 1, highest_received) without overflow for every well-formed proxy
//@extract file=dds/src/rtps/writer_proxy.rs impl="impl RtpsWriterProxy" item="fn available_changes_max" ret=r
//@spec
        requires self.wf(),
        ensures r as int == self.spec_available_max(),
//@end

//@obligation name=irrelevant_change_set props=C01,C02,C03 kind=proof tier=quick fn=RtpsWriterProxy::irrelevant_change_set
//@  highest_received only grows (to max(old, a)); nothing else changes (frame); available_changes_max is monotone
//@extract file=dds/src/rtps/writer_proxy.rs impl="impl RtpsWriterProxy" item="fn irrelevant_change_set"
//@spec
        requires old(self).wf(), a_seq_num < i64::MAX,
        ensures
            final(self).wf(),
            final(self).highest_received_change_sn == (if a_seq_num > old(self).highest_received_change_sn { a_seq_num } else { old(self).highest_received_change_sn }),
            final(self).first_available_seq_num == old(self).first_available_seq_num,
            final(self).last_available_seq_num == old(self).last_available_seq_num,
            final(self).same_but_seq(*old(self)),
            final(self).spec_available_max() >= old(self).spec_available_max(),
//@end

//@obligation name=lost_changes_update props=C01,C02 kind=proof tier=quick fn=RtpsWriterProxy::lost_changes_update
//@  sets first_available exactly; frame; highest_received untouched (so a received number is never un-received)
//@extract file=dds/src/rtps/writer_proxy.rs impl="impl RtpsWriterProxy" item="fn lost_changes_update"
//@spec
        requires old(self).wf(), first_available_seq_num > i64::MIN,
        ensures
            final(self).wf(),
            final(self).first_available_seq_num == first_available_seq_num,
            final(self).highest_received_change_sn == old(self).highest_received_change_sn,
            final(self).last_available_seq_num == old(self).last_available_seq_num,
            final(self).same_but_seq(*old(self)),
            final(self).spec_available_max() >= old(self).highest_received_change_sn,
//@end

//@obligation name=missing_changes_update props=C01,C04 kind=proof tier=quick fn=RtpsWriterProxy::missing_changes_update
//@  sets last_available exactly; frame; available_changes_max unchanged
//@extract file=dds/src/rtps/writer_proxy.rs impl="impl RtpsWriterProxy" item="fn missing_changes_update"
//@spec
        requires old(self).wf(),
        ensures
            final(self).wf(),
            final(self).last_available_seq_num == last_available_seq_num,
            final(self).first_available_seq_num == old(self).first_available_seq_num,
            final(self).highest_received_change_sn == old(self).highest_received_change_sn,
            final(self).same_but_seq(*old(self)),
            final(self).spec_available_max() == old(self).spec_available_max(),
//@end

//@obligation name=set_must_send_acknacks props=C01 kind=proof tier=quick fn=RtpsWriterProxy::set_must_send_acknacks
//@  frame: only the flag changes
//@extract file=dds/src/rtps/writer_proxy.rs impl="impl RtpsWriterProxy" item="fn set_must_send_acknacks"
//@spec
        ensures
            final(self).must_send_acknacks == must_send_acknacks,
            final(self).first_available_seq_num == old(self).first_available_seq_num,
            final(self).last_available_seq_num == old(self).last_available_seq_num,
            final(self).highest_received_change_sn == old(self).highest_received_change_sn,
            final(self).last_received_heartbeat_count == old(self).last_received_heartbeat_count,
//@end

//@obligation name=set_last_received_heartbeat_count props=C01 kind=proof tier=quick fn=RtpsWriterProxy::set_last_received_heartbeat_count
//@  frame: only the heartbeat counter changes
//@extract file=dds/src/rtps/writer_proxy.rs impl="impl RtpsWriterProxy" item="fn set_last_received_heartbeat_count"
//@spec
        ensures
            final(self).last_received_heartbeat_count == last_received_heartbeat_count,
            final(self).first_available_seq_num == old(self).first_available_seq_num,
            final(self).last_available_seq_num == old(self).last_available_seq_num,
            final(self).highest_received_change_sn == old(self).highest_received_change_sn,
            final(self).must_send_acknacks == old(self).must_send_acknacks,
//@end
}

//@obligation name=lemma_in_order_exactly_once props=C01,C02 kind=proof tier=quick fn=RtpsWriterProxy::available_changes_max,RtpsStatefulReader::on_data_submessage
//@  induction step that turns the per-call contracts into the history statement: if each accepted sequence number
//@  satisfies sn >= available_max+1 (best effort) or sn == available_max+1 (reliable) and afterwards
//@  available_max' >= sn (contracts of on_data_submessage + monotonicity above), then the sequence of accepted numbers
//@  is strictly increasing — no duplicate, no reordering — for histories of any length.
proof fn lemma_in_order_exactly_once(accepted: Seq<int>, maxes: Seq<int>)
    requires
        maxes.len() == accepted.len() + 1,
        forall|i: int| 0 <= i < accepted.len() ==> accepted[i] >= #[trigger] maxes[i] + 1,
        forall|i: int| 0 <= i < accepted.len() ==> #[trigger] maxes[i + 1] >= accepted[i],
    ensures
        forall|i: int, j: int| 0 <= i < j < accepted.len() ==> accepted[i] < accepted[j],
    decreases accepted.len(),
{
    if accepted.len() > 0 {
        let n = accepted.len() - 1;
        lemma_in_order_exactly_once(accepted.subrange(0, n as int), maxes.subrange(0, n as int + 1));
        // maxes is non-decreasing along accepted prefixes: maxes[k+1] >= accepted[k] >= maxes[k] + 1
        assert forall|i: int| 0 <= i < n implies accepted[i] < accepted[n as int] by {
            lemma_max_chain(accepted, maxes, i, n as int);
        }
        assert forall|i: int, j: int| 0 <= i < j < accepted.len() implies accepted[i] < accepted[j] by {
            if j < n {
                assert(accepted.subrange(0, n as int)[i] == accepted[i]);
                assert(accepted.subrange(0, n as int)[j] == accepted[j]);
            }
        }
    }
}

proof fn lemma_max_chain(accepted: Seq<int>, maxes: Seq<int>, i: int, j: int)
    requires
        maxes.len() == accepted.len() + 1,
        forall|k: int| 0 <= k < accepted.len() ==> accepted[k] >= #[trigger] maxes[k] + 1,
        forall|k: int| 0 <= k < accepted.len() ==> #[trigger] maxes[k + 1] >= accepted[k],
        0 <= i < j < accepted.len(),
    ensures accepted[i] < accepted[j],
    decreases j - i,
{
    if j == i + 1 {
        assert(maxes[i + 1] >= accepted[i]);
        assert(accepted[j] >= maxes[j] + 1);
    } else {
        lemma_max_chain(accepted, maxes, i, j - 1);
        assert(maxes[(j - 1) + 1] >= accepted[j - 1]);
        assert(accepted[j] >= maxes[j] + 1);
    }
}

} // verus!
fn main() {}
