// @unit name=reader_proxy_v
// Route V unit (C01, C03): acknowledgement bookkeeping of dds/src/rtps/reader_proxy.rs, copied verbatim.
use vstd::prelude::*;
verus! {

#[verifier::external_body] struct Guid { _p: () }
#[verifier::external_body] struct Locator { _p: () }
#[verifier::external_body] struct EntityId { _p: () }
#[verifier::external_body] struct HeartbeatMachine { _p: () }
#[verifier::external_body] struct HeartbeatFragMachine { _p: () }
#[verifier::external_body] struct ReliabilityKind { _p: () }
#[verifier::external_body] struct DurabilityKind { _p: () }

//@extract file=dds/src/transport/types.rs item="type SequenceNumber"
//@end
//@extract file=dds/src/transport/types.rs item="type Long"
//@end
//@extract file=dds/src/rtps_messages/types.rs item="type Count"
//@end

//@extract file=dds/src/rtps/reader_proxy.rs item="struct RtpsReaderProxy"
//@end

impl RtpsReaderProxy {
    spec fn same_but(self, o: Self) -> bool {
        self.remote_reader_guid == o.remote_reader_guid && self.remote_group_entity_id == o.remote_group_entity_id
        && self.unicast_locator_list == o.unicast_locator_list && self.multicast_locator_list == o.multicast_locator_list
        && self.requested_changes == o.requested_changes && self.expects_inline_qos == o.expects_inline_qos
        && self.is_active == o.is_active && self.last_received_acknack_count == o.last_received_acknack_count
        && self.last_received_nack_frag_count == o.last_received_nack_frag_count && self.heartbeat_machine == o.heartbeat_machine
        && self.heartbeat_frag_machine == o.heartbeat_frag_machine && self.reliability == o.reliability
        && self.first_relevant_sample_seq_num == o.first_relevant_sample_seq_num && self.durability == o.durability
    }

//@obligation name=acked_changes_set props=C01,C03 kind=proof tier=quick fn=RtpsReaderProxy::acked_changes_set
//@  highest_acked' == max(highest_acked, committed): acknowledgement state only grows, never regresses; frame
//@extract file=dds/src/rtps/reader_proxy.rs impl="impl RtpsReaderProxy" item="fn acked_changes_set"
//@spec
        ensures
            final(self).highest_acked_seq_num == (if committed_seq_num > old(self).highest_acked_seq_num { committed_seq_num } else { old(self).highest_acked_seq_num }),
            final(self).highest_sent_seq_num == old(self).highest_sent_seq_num,
            final(self).same_but(*old(self)),
//@end

//@obligation name=set_highest_sent_seq_num props=C01 kind=proof tier=quick fn=RtpsReaderProxy::set_highest_sent_seq_num
//@  highest_sent' == max(highest_sent, seq_num); frame
//@extract file=dds/src/rtps/reader_proxy.rs impl="impl RtpsReaderProxy" item="fn set_highest_sent_seq_num"
//@spec
        ensures
            final(self).highest_sent_seq_num == (if seq_num > old(self).highest_sent_seq_num { seq_num } else { old(self).highest_sent_seq_num }),
            final(self).highest_acked_seq_num == old(self).highest_acked_seq_num,
            final(self).same_but(*old(self)),
//@end

//@obligation name=unacked_changes props=C03 kind=proof tier=quick fn=RtpsReaderProxy::unacked_changes
//@  unacked_changes(Some(h)) <=> h > highest_acked; unacked_changes(None) == false
//@extract file=dds/src/rtps/reader_proxy.rs impl="impl RtpsReaderProxy" item="fn unacked_changes" ret=r
//@spec
        ensures
            r == (match highest_available_seq_num { Some(h) => h > self.highest_acked_seq_num, None => false }),
//@end

//@obligation name=set_last_received_acknack_count props=C01 kind=proof tier=quick fn=RtpsReaderProxy::set_last_received_acknack_count
//@  frame: only the acknack counter changes
//@extract file=dds/src/rtps/reader_proxy.rs impl="impl RtpsReaderProxy" item="fn set_last_received_acknack_count"
//@spec
        ensures
            final(self).last_received_acknack_count == count,
            final(self).highest_acked_seq_num == old(self).highest_acked_seq_num,
            final(self).highest_sent_seq_num == old(self).highest_sent_seq_num,
            final(self).requested_changes == old(self).requested_changes,
//@end
}

} // verus!
fn main() {}
