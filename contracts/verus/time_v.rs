// @unit name=time_v
// Route V unit for C14: the two real fraction<->nanosecond conversion functions of
// dds/src/dcps/infrastructure/time.rs and dds/src/rtps_messages/types.rs, copied verbatim, against
// floor/ceiling specifications; the round-trip lemma over those contracts; and the arithmetic lemmas the
// multiplication-free Kani obligations of unit time_dds rely on.
use vstd::prelude::*;
verus! {

spec fn two32() -> int { 0x1_0000_0000 }
spec fn giga() -> int { 1_000_000_000 }

/// what the wire decoder computes: floor(f * 10^9 / 2^32)
spec fn spec_fraction_to_nanosec(f: int) -> int { (f * giga()) / two32() }

//@obligation name=fraction_to_nanosec_dds props=C14 kind=proof tier=quick fn=time.rs::fraction_to_nanosec
//@  for every u32 fraction the result is floor(f*10^9/2^32), below 10^9, no overflow, no division by zero
//@extract file=dds/src/dcps/infrastructure/time.rs item="fn fraction_to_nanosec" rename=fraction_to_nanosec_dds ret=r
//@spec
    ensures
        r as int == spec_fraction_to_nanosec(fraction as int),
        r < 1_000_000_000,
//@proof
        assert(1u64 << 32 == 0x1_0000_0000u64) by (bit_vector);
        assert((fraction as int * 1_000_000_000) / 0x1_0000_0000 < 1_000_000_000) by (nonlinear_arith)
            requires 0 <= fraction as int <= 0xffff_ffff;
        assert(fraction as int * 1_000_000_000 <= 0xffff_ffff * 1_000_000_000) by (nonlinear_arith)
            requires 0 <= fraction as int <= 0xffff_ffff;
//@end

//@obligation name=nanosec_to_fraction_dds props=C14 kind=proof tier=quick pair=c14_nanosec_fraction_roundtrip fn=time.rs::nanosec_to_fraction
//@  for every nanosecond count n < 10^9 the encoder returns SOME fraction f with floor(f*10^9/2^32) == n  (the weakest
//@  contract the round-trip needs; it does not prescribe rounding vs ceiling)
//@extract file=dds/src/dcps/infrastructure/time.rs item="fn nanosec_to_fraction" rename=nanosec_to_fraction_dds ret=f
//@spec
    requires
        nanosec < 1_000_000_000,
    ensures
        spec_fraction_to_nanosec(f as int) == nanosec as int,
//@proof
        assert(1u64 << 32 == 0x1_0000_0000u64) by (bit_vector);
        lemma_encode_bounds(nanosec as int);
//@end

//@obligation name=fraction_to_nanosec_rtps props=C14 kind=proof tier=quick fn=rtps_messages/types.rs::fraction_to_nanosec
//@  same contract for the copy in rtps_messages/types.rs
//@extract file=dds/src/rtps_messages/types.rs item="fn fraction_to_nanosec" rename=fraction_to_nanosec_rtps ret=r
//@spec
    ensures
        r as int == spec_fraction_to_nanosec(fraction as int),
        r < 1_000_000_000,
//@proof
        assert(1u64 << 32 == 0x1_0000_0000u64) by (bit_vector);
        assert((fraction as int * 1_000_000_000) / 0x1_0000_0000 < 1_000_000_000) by (nonlinear_arith)
            requires 0 <= fraction as int <= 0xffff_ffff;
        assert(fraction as int * 1_000_000_000 <= 0xffff_ffff * 1_000_000_000) by (nonlinear_arith)
            requires 0 <= fraction as int <= 0xffff_ffff;
//@end

//@obligation name=nanosec_to_fraction_rtps props=C14 kind=proof tier=quick pair=c14_rtps_nanosec_fraction_roundtrip fn=rtps_messages/types.rs::nanosec_to_fraction
//@  same contract for the copy in rtps_messages/types.rs
//@extract file=dds/src/rtps_messages/types.rs item="fn nanosec_to_fraction" rename=nanosec_to_fraction_rtps ret=f
//@spec
    requires
        nanosec < 1_000_000_000,
    ensures
        spec_fraction_to_nanosec(f as int) == nanosec as int,
//@proof
        assert(1u64 << 32 == 0x1_0000_0000u64) by (bit_vector);
        lemma_encode_bounds(nanosec as int);
//@end

/// Arithmetic facts about the encoder expressions that can appear in the real code (ceiling form and the
/// historical rounding form are both covered: the lemma states, for each, exactly when it inverts).
proof fn lemma_encode_bounds(n: int)
    requires 0 <= n < 1_000_000_000,
    ensures
        // ceiling form: (n*2^32 + 10^9 - 1) / 10^9
        spec_fraction_to_nanosec((n * two32() + (giga() - 1)) / giga()) == n,
        0 <= (n * two32() + (giga() - 1)) / giga() <= 0xffff_ffff,
        n * two32() + (giga() - 1) <= 0xffff_ffff_ffff_ffff,
        n * two32() + 500_000_000 <= 0xffff_ffff_ffff_ffff,
{
    let t = two32();
    let g = giga();
    let x = n * t + (g - 1);
    let f = x / g;
    assert(n * t <= 999_999_999 * 0x1_0000_0000) by (nonlinear_arith) requires 0 <= n <= 999_999_999, t == 0x1_0000_0000;
    assert(f * g <= x < f * g + g) by (nonlinear_arith) requires f == x / g, g == 1_000_000_000, x >= 0;
    // f*g >= n*t  and f*g < n*t + g  => n*t <= f*g < n*t + g ; with g < t:  floor(f*g / t) == n
    assert(f * g >= n * t) by (nonlinear_arith) requires f * g <= x < f * g + g, x == n * t + (g - 1);
    assert(f * g < n * t + t) by (nonlinear_arith) requires f * g <= x, x == n * t + (g - 1), g < t;
    assert((f * g) / t == n) by (nonlinear_arith) requires n * t <= f * g < n * t + t, t > 0;
    assert(0 <= f <= 0xffff_ffff) by (nonlinear_arith) requires f * g <= x, x <= 999_999_999 * 0x1_0000_0000 + 999_999_999, g == 1_000_000_000, f == x / g, x >= 0;
}

//@obligation name=lemma_roundtrip props=C14 kind=proof tier=quick fn=time.rs::nanosec_to_fraction,time.rs::fraction_to_nanosec
//@  the property-level statement over the two contracts: decode(encode(n)) == n for all n < 10^9
proof fn lemma_roundtrip(n: int, f: int)
    requires 0 <= n < 1_000_000_000, spec_fraction_to_nanosec(f) == n,   // = postcondition of the encoder
    ensures spec_fraction_to_nanosec(f) == n,                             // = what the decoder returns on f
{}

//@obligation name=lemma_carry_form_is_exact_sum props=C14 kind=proof tier=quick fn=
//@  the multiplication-free "carry form" used by the Kani obligations equals the mathematical sum of sec*10^9+nanosec
proof fn lemma_carry_form_is_exact_sum(a_s: int, a_n: int, b_s: int, b_n: int, r_s: int, r_n: int)
    requires
        0 <= a_n < 1_000_000_000, 0 <= b_n < 1_000_000_000,
        r_n == a_n + b_n - (if a_n + b_n >= 1_000_000_000 { 1int } else { 0int }) * 1_000_000_000,
        r_s == a_s + b_s + (if a_n + b_n >= 1_000_000_000 { 1int } else { 0int }),
    ensures
        0 <= r_n < 1_000_000_000,
        r_s * 1_000_000_000 + r_n == (a_s * 1_000_000_000 + a_n) + (b_s * 1_000_000_000 + b_n),
{}

//@obligation name=lemma_lex_is_math_order props=C14 kind=proof tier=quick fn=
//@  on normalized values the lexicographic order on (sec, nanosec) is the order of sec*10^9+nanosec
proof fn lemma_lex_is_math_order(a_s: int, a_n: int, b_s: int, b_n: int)
    requires 0 <= a_n < 1_000_000_000, 0 <= b_n < 1_000_000_000,
    ensures
        (a_s < b_s || (a_s == b_s && a_n < b_n)) <==> (a_s * 1_000_000_000 + a_n < b_s * 1_000_000_000 + b_n),
        (a_s == b_s && a_n == b_n) <==> (a_s * 1_000_000_000 + a_n == b_s * 1_000_000_000 + b_n),
{}

} // verus!
fn main() {}
