"""Build a scratch copy of the real dust_dds crate (from /repo's *working tree*) with harness modules,
contract attributes and generated statement-wrappers added.  Nothing in the copied text is rewritten;
text is only appended / inserted (see DESIGN.md 2.2).  Used for both Kani (cfg(kani)) and the native
replay build (--cfg verif_replay)."""
import os, re, shutil, subprocess, json, fcntl, sys

REPO = os.environ.get("VERIF_REPO", "/repo")
VERIF = os.path.dirname(os.path.dirname(os.path.abspath(__file__)))
SCRATCH_ROOT = os.environ.get("VERIF_SCRATCH", "/var/tmp/dust-verif")
CACHE = os.path.join(VERIF, ".cache")


class AnchorLost(Exception):
    pass


def _workspace_toml():
    src = open(os.path.join(REPO, "Cargo.toml")).read()
    # keep [workspace.package] and [workspace.dependencies] verbatim, replace the member lists
    m = re.search(r"^\[workspace\.package\]", src, re.M)
    if not m:
        raise AnchorLost("Cargo.toml: [workspace.package] not found")
    tail = src[m.start():]
    return ('[workspace]\nmembers = ["dds", "dds_derive", "verif_support", "verif_replay_bin"]\n'
            'resolver = "3"\n\n' + tail +
            '\n[profile.dev]\ndebug = false\nincremental = false\n')


def module_path_of(relfile):
    """dds/src/a/b/c.rs -> crate::a::b::c ; mod.rs -> parent ; lib.rs -> crate"""
    p = relfile
    assert p.startswith("dds/src/"), p
    p = p[len("dds/src/"):-3]
    parts = p.split("/")
    if parts[-1] in ("mod", "lib"):
        parts = parts[:-1]
    return "crate" + "".join("::" + x for x in parts)


HARNESS_RE = re.compile(
    r"#\[cfg_attr\(kani,\s*kani::(?:proof|proof_for_contract\([^)]*\))\)\]\s*(?:#\[[^\]]*\]\s*)*(?:pub(?:\([a-z]+\))?\s+)?fn\s+([A-Za-z0-9_]+)\s*\(")


def harness_names(text):
    return HARNESS_RE.findall(text)


def insert_before_fn(src, anchor, lines, relfile):
    """Insert attribute `lines` immediately before the unique line matching regex `anchor`."""
    rx = re.compile(anchor, re.M)
    ms = list(rx.finditer(src))
    if len(ms) != 1:
        raise AnchorLost("%s: anchor %r matched %d times (need exactly 1)" % (relfile, anchor, len(ms)))
    ls = src.rfind("\n", 0, ms[0].start()) + 1
    indent = re.match(r"[ \t]*", src[ls:]).group(0)
    ins = "".join(indent + l + "\n" for l in lines)
    return src[:ls] + ins + src[ls:]


def extract_statement(src, spec, relfile):
    """Return the text of a statement/expression region copied verbatim: from the unique match of
    spec['start'] to the end of the balanced brace block that begins at or after the match (or, if
    spec['end'] is given, to the unique match of it after the start)."""
    rx = re.compile(spec["start"], re.M)
    ms = list(rx.finditer(src))
    if len(ms) != 1:
        raise AnchorLost("%s: statement anchor %r matched %d times" % (relfile, spec["start"], len(ms)))
    s = ms[0].start()
    if "end" in spec:
        m2 = re.compile(spec["end"], re.M).search(src, ms[0].end())
        if not m2:
            raise AnchorLost("%s: statement end anchor %r not found" % (relfile, spec["end"]))
        return src[s:m2.end()]
    i = src.find("{", ms[0].end() - 1 if src[ms[0].end() - 1] == "{" else ms[0].end())
    if i < 0:
        raise AnchorLost("%s: no block after %r" % (relfile, spec["start"]))
    depth = 0
    j = i
    while j < len(src):
        c = src[j]
        if c == "{":
            depth += 1
        elif c == "}":
            depth -= 1
            if depth == 0:
                return src[s:j + 1]
        j += 1
    raise AnchorLost("%s: unbalanced block after %r" % (relfile, spec["start"]))


SHIM = r'''
//! Native replay shim: provides the subset of the `kani` API the harness modules use, fed from the
//! concrete values Kani printed for a counterexample.
use std::sync::Mutex;
static VALS: Mutex<Vec<Vec<u8>>> = Mutex::new(Vec::new());
static POS: Mutex<usize> = Mutex::new(0);
pub fn load(v: Vec<Vec<u8>>) { *VALS.lock().unwrap() = v; *POS.lock().unwrap() = 0; }
static RNG: Mutex<u64> = Mutex::new(0);
static REC: Mutex<Vec<Vec<u8>>> = Mutex::new(Vec::new());
/// random-search mode (used when the verifier refuted an obligation but could not produce a trace): every draw is
/// pseudo-random, biased towards small values and extremes, and recorded so that a failing run can be replayed
pub fn set_random(seed: u64) { *RNG.lock().unwrap() = seed.wrapping_mul(0x9E3779B97F4A7C15) | 1; }
pub fn recorded() -> Vec<Vec<u8>> { REC.lock().unwrap().clone() }
fn rnd(state: &mut u64) -> u64 { let mut x = *state; x ^= x << 13; x ^= x >> 7; x ^= x << 17; *state = x; x }
fn next(n: usize) -> Vec<u8> {
    {
        let mut st = RNG.lock().unwrap();
        if *st != 0 {
            let mode = rnd(&mut st) % 8;
            let mut v = vec![0u8; n];
            match mode {
                0 | 1 | 2 => { v[0] = (rnd(&mut st) % 4) as u8; }                      // small value
                3 => { v[0] = (rnd(&mut st) % 16) as u8; }
                4 => { for b in v.iter_mut() { *b = 0xff; } if rnd(&mut st) % 2 == 0 { v[n - 1] = 0x7f; } }  // extremes
                5 => { v[0] = rnd(&mut st) as u8; }                                    // one byte
                _ => { for b in v.iter_mut() { *b = rnd(&mut st) as u8; } }            // anything
            }
            REC.lock().unwrap().push(v.clone());
            return v;
        }
    }
    let vals = VALS.lock().unwrap();
    let mut pos = POS.lock().unwrap();
    let r = match vals.get(*pos) { Some(v) => v.clone(), None => vec![0u8; n] };
    *pos += 1;
    if r.len() != n { eprintln!("VERIF-REPLAY: value {} has {} bytes, harness wants {}", *pos - 1, r.len(), n); std::process::exit(4); }
    r
}
pub trait Arb: Sized { fn arb() -> Self; }
macro_rules! int_arb { ($($t:ty),*) => { $(impl Arb for $t { fn arb() -> Self { let b = next(core::mem::size_of::<$t>()); <$t>::from_le_bytes(b.try_into().unwrap()) } })* } }
int_arb!(u8, u16, u32, u64, u128, i8, i16, i32, i64, i128, usize, isize);
impl Arb for bool { fn arb() -> Self { let b = next(1); b[0] == 1 } }
impl<T: Arb, const N: usize> Arb for [T; N] { fn arb() -> Self { core::array::from_fn(|_| T::arb()) } }
pub fn any<T: Arb>() -> T { T::arb() }
pub fn assume(c: bool) { if !c { eprintln!("VERIF-REPLAY: assumption violated by recorded values"); std::process::exit(3); } }
#[macro_export] macro_rules! verif_cover { ($($t:tt)*) => {}; }
pub use verif_cover as cover;
pub struct Registry;
pub trait Dispatch<const N: usize> { fn run(name: &str) -> bool; }
'''

REPLAY_MAIN = r'''
fn main() {
    let args: Vec<String> = std::env::args().collect();
    let name = &args[1];
    let vals: Vec<Vec<u8>> = if args.len() > 2 {
        let txt = std::fs::read_to_string(&args[2]).expect("values file");
        txt.lines().filter(|l| !l.trim().is_empty()).map(|l| l.split(',').filter(|s| !s.trim().is_empty()).map(|s| s.trim().parse::<u8>().unwrap()).collect()).collect()
    } else { Vec::new() };
    dust_dds::verif_shim::load(vals);
    if let Ok(seed) = std::env::var("VERIF_RANDOM") {
        dust_dds::verif_shim::set_random(seed.parse::<u64>().unwrap_or(1));
        std::panic::set_hook(Box::new(|info| {
            let rec = dust_dds::verif_shim::recorded();
            let txt: Vec<String> = rec.iter().map(|v| v.iter().map(|b| b.to_string()).collect::<Vec<_>>().join(",")).collect();
            eprintln!("{}", info);
            eprintln!("VERIF-VALUES: {}", txt.join(";"));
        }));
    }
    if !dust_dds::verif_replay(name) { eprintln!("VERIF-REPLAY: unknown harness {}", name); std::process::exit(5); }
    println!("VERIF-REPLAY: harness {} completed without panic", name);
}
'''


def build(name, units, replay=False):
    """units: list of unit dicts (see contracts/units.json).  Returns scratch dir path."""
    os.makedirs(SCRATCH_ROOT, exist_ok=True)
    d = os.path.join(SCRATCH_ROOT, name)
    if os.path.exists(d):
        shutil.rmtree(d)
    os.makedirs(d)
    for sub in ("dds", "dds_derive"):
        shutil.copytree(os.path.join(REPO, sub), os.path.join(d, sub),
                        ignore=shutil.ignore_patterns("target", "benches", "examples", "tests"))
    shutil.copy(os.path.join(REPO, "Cargo.lock"), os.path.join(d, "Cargo.lock"))
    shutil.copytree(os.path.join(VERIF, "support", "verif_support"), os.path.join(d, "verif_support"))
    open(os.path.join(d, "Cargo.toml"), "w").write(_workspace_toml())
    os.makedirs(os.path.join(d, ".cargo"))
    open(os.path.join(d, ".cargo", "config.toml"), "w").write("[net]\noffline = true\n")
    # replay bin crate (tiny; always present so the workspace is stable)
    rb = os.path.join(d, "verif_replay_bin")
    os.makedirs(os.path.join(rb, "src"))
    open(os.path.join(rb, "Cargo.toml"), "w").write(
        '[package]\nname = "verif_replay_bin"\nversion = "0.0.0"\nedition = "2021"\n\n[dependencies]\n'
        'dust_dds = { path = "../dds" }\n')
    open(os.path.join(rb, "src", "main.rs"), "w").write(
        REPLAY_MAIN if replay else "fn main() {}\n")

    # dds/Cargo.toml: drop dev-dependencies / bench sections (they are not part of the library that
    # runs; dropping them keeps the build offline-cheap), add the helper crate.
    ct = open(os.path.join(d, "dds", "Cargo.toml")).read()
    ct = re.sub(r"^\[dev-dependencies\].*?(?=^\[)", "", ct, flags=re.S | re.M)
    ct = re.sub(r"^\[\[bench\]\].*?(?=^\[|\Z)", "", ct, flags=re.S | re.M)
    ct = re.sub(r"^readme = true\n", "", ct, flags=re.M)
    ct += "\n[target.'cfg(kani)'.dependencies]\nverif_support = { path = \"../verif_support\" }\n"
    ct += "\n[lints.rust]\nunexpected_cfgs = { level = \"allow\" }\n"
    open(os.path.join(d, "dds", "Cargo.toml"), "w").write(ct)

    dispatch_idx = 0
    by_file = {}
    for u in units:
        by_file.setdefault(u["file"], []).append(u)
    for relfile, us in by_file.items():
        path = os.path.join(d, relfile)
        if not os.path.exists(path):
            raise AnchorLost("%s: file not found" % relfile)
        src = open(path).read()
        orig = src
        appended = ""
        for u in us:
            # generated wrappers for statements inside closures / async blocks
            gen = ""
            for st in u.get("statements", []):
                body = extract_statement(orig, st, relfile)
                gen += "\n#[allow(unused_mut, unused_variables, clippy::all)]\n%s {\n%s\n%s\n}\n" % (
                    st["signature"], st.get("prologue", ""), body + st.get("epilogue", ""))
            htxt = open(os.path.join(VERIF, u["harness_file"])).read()
            names = harness_names(htxt)
            arms = "".join('            "%s" => { %s(); true }\n' % (n, n) for n in names)
            appended += (
                "\n#[cfg(any(kani, verif_replay))]\n#[allow(unused_imports, dead_code, unused_variables, unused_mut, clippy::all)]\n"
                "mod verif_kani_%s {\n    use super::*;\n    #[cfg(verif_replay)]\n    use crate::verif_shim as kani;\n"
                "    #[cfg(kani)]\n    extern crate verif_support;\n%s\n%s\n"
                "    #[cfg(verif_replay)]\n    impl crate::verif_shim::Dispatch<%d> for crate::verif_shim::Registry {\n"
                "        fn run(name: &str) -> bool {\n            match name {\n%s            _ => false }\n        }\n    }\n}\n"
            ) % (u["name"], gen, htxt, dispatch_idx, arms)
            u["_dispatch"] = dispatch_idx
            u["_harnesses"] = names
            dispatch_idx += 1
            for a in u.get("attrs", []):
                src = insert_before_fn(src, a["anchor"], a["lines"], relfile)
        open(path, "w").write(src + appended)

    lib = os.path.join(d, "dds", "src", "lib.rs")
    ltxt = open(lib).read()
    calls = " || ".join("<verif_shim::Registry as verif_shim::Dispatch<%d>>::run(name)" % i
                        for i in range(dispatch_idx)) or "false"
    ltxt += ("\n#[cfg(verif_replay)]\npub mod verif_shim;\n#[cfg(verif_replay)]\n"
             "pub fn verif_replay(name: &str) -> bool { %s }\n" % calls)
    open(lib, "w").write(ltxt)
    open(os.path.join(d, "dds", "src", "verif_shim.rs"), "w").write(SHIM)
    return d


def remove(d):
    shutil.rmtree(d, ignore_errors=True)
