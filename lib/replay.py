"""Native replay of a Kani counterexample against the real crate (scratch copy built with
--cfg verif_replay; the harness text is the same text Kani verified, `kani::any` is fed from the
recorded concrete values)."""
import os, subprocess, json, time
import scratch

TARGET = os.path.join(scratch.CACHE, "replay-target")


def run(name, units, harness, vals, timeout=60, keep=False):
    """Returns (status, output).  status: reproduced | hang | not_reproduced | inconsistent | build_failed"""
    d = scratch.build(name + "-replay", units, replay=True)
    try:
        env = dict(os.environ, CARGO_TARGET_DIR=TARGET, CARGO_NET_OFFLINE="true",
                   RUSTFLAGS="--cfg verif_replay --cap-lints allow")
        p = subprocess.run(["cargo", "build", "--offline", "-q", "-p", "verif_replay_bin"], cwd=d, env=env,
                           stdout=subprocess.PIPE, stderr=subprocess.STDOUT, text=True)
        if p.returncode != 0:
            return "build_failed", p.stdout[-6000:]
        vf = os.path.join(d, "values.txt")
        with open(vf, "w") as f:
            for v in vals or []:
                f.write(",".join(str(b) for b in v) + "\n")
        exe = os.path.join(TARGET, "debug", "verif_replay_bin")
        try:
            r = subprocess.run([exe, harness, vf], cwd=d, stdout=subprocess.PIPE, stderr=subprocess.STDOUT,
                               text=True, timeout=timeout, env=dict(os.environ, RUST_BACKTRACE="0"))
        except subprocess.TimeoutExpired as e:
            return "hang", "replay did not terminate within %d s\n%s" % (timeout, (e.stdout or "")[-2000:] if isinstance(e.stdout, str) else "")
        out = r.stdout[-6000:]
        if r.returncode == 101 or "panicked at" in out:
            return "reproduced", out
        if r.returncode == 0:
            return "not_reproduced", out
        if r.returncode in (3, 4):
            return "inconsistent", out
        if r.returncode < 0:
            return "reproduced", "process died with signal %d\n%s" % (-r.returncode, out)
        return "inconsistent", "exit code %d\n%s" % (r.returncode, out)
    finally:
        if not keep:
            scratch.remove(d)


def search(name, units, harness, budget_s=90, max_tries=20000, keep=False):
    """Random search for a failing input of a harness the verifier refuted without giving a trace: the harness body runs
    natively against the real crate with pseudo-random draws (recorded).  Returns (values or None, output, tries)."""
    import re as _re
    d = scratch.build(name + "-replay", units, replay=True)
    try:
        env = dict(os.environ, CARGO_TARGET_DIR=TARGET, CARGO_NET_OFFLINE="true",
                   RUSTFLAGS="--cfg verif_replay --cap-lints allow")
        p = subprocess.run(["cargo", "build", "--offline", "-q", "-p", "verif_replay_bin"], cwd=d, env=env,
                           stdout=subprocess.PIPE, stderr=subprocess.STDOUT, text=True)
        if p.returncode != 0:
            return None, p.stdout[-3000:], 0
        exe = os.path.join(TARGET, "debug", "verif_replay_bin")
        t0 = time.time()
        n = 0
        while n < max_tries and time.time() - t0 < budget_s:
            n += 1
            try:
                r = subprocess.run([exe, harness], cwd=d, stdout=subprocess.PIPE, stderr=subprocess.STDOUT, text=True,
                                   timeout=10, env=dict(os.environ, RUST_BACKTRACE="0", VERIF_RANDOM=str(n)))
            except subprocess.TimeoutExpired:
                continue
            if r.returncode == 101 and "VERIF-VALUES:" in r.stdout:
                m = _re.search(r"VERIF-VALUES: (.*)", r.stdout)
                vals = [[int(x) for x in part.split(",") if x != ""] for part in m.group(1).split(";") if part != ""]
                return vals, r.stdout[-3000:], n
        return None, "no failing input in %d random native runs (%.0f s)" % (n, time.time() - t0), n
    finally:
        if not keep:
            scratch.remove(d)
