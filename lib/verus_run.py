"""Route V: copy the text of real items from /repo's working tree into one Verus file per unit, splice
the contracts of the unit file around them, run `verus --output-json --time-expanded`, and map the
verdicts back to obligations.  The copied text is changed only by the mechanical rewrites listed in
DESIGN.md 2.2 (visibility/attributes stripped, `const fn` -> `fn`, declared call-site rewrites); every
rewrite applied is reported in the evidence."""
import os, re, json, subprocess, time, shlex
import scratch
from scratch import AnchorLost

VERUS = os.environ.get("VERIF_VERUS", "verus")


# ------------------------------------------------------------------ Rust text scanning
def skip_trivia(src, i):
    """If src[i] starts a comment / string / char literal return index just past it, else i."""
    n = len(src)
    c = src[i]
    if src.startswith("//", i):
        j = src.find("\n", i)
        return n if j < 0 else j
    if src.startswith("/*", i):
        depth, j = 1, i + 2
        while j < n and depth:
            if src.startswith("/*", j):
                depth += 1; j += 2
            elif src.startswith("*/", j):
                depth -= 1; j += 2
            else:
                j += 1
        return j
    if c == '"' or (c == 'b' and src.startswith('b"', i)):
        j = i + (2 if c == 'b' else 1)
        while j < n and src[j] != '"':
            j += 2 if src[j] == "\\" else 1
        return j + 1
    m = re.match(r'b?r(#*)"', src[i:i + 12])
    if m and (i == 0 or not (src[i - 1].isalnum() or src[i - 1] == "_")):
        end = '"' + m.group(1)
        j = src.find(end, i + len(m.group(0)))
        return n if j < 0 else j + len(end)
    if c == "'":
        m = re.match(r"'(\\.[^']*|[^\\'])'", src[i:i + 14])
        if m:
            return i + len(m.group(0))
        return i + 1  # lifetime
    return i


def match_brace(src, i):
    """src[i] == '{' -> index of the matching '}'"""
    assert src[i] == "{"
    depth, j, n = 0, i, len(src)
    while j < n:
        k = skip_trivia(src, j)
        if k != j:
            j = k
            continue
        c = src[j]
        if c == "{":
            depth += 1
        elif c == "}":
            depth -= 1
            if depth == 0:
                return j
        j += 1
    raise AnchorLost("unbalanced braces")


def find_code(src, pattern, start=0, end=None):
    """All regex matches of pattern that start outside comments/strings, within [start, end)."""
    end = len(src) if end is None else end
    rx = re.compile(pattern)
    out = []
    j = start
    while j < end:
        k = skip_trivia(src, j)
        if k != j:
            j = k
            continue
        m = rx.match(src, j)
        if m and m.end() <= end:
            out.append(m)
        j += 1
    return out


def locate_item(src, relfile, item, impl=None, nth=None):
    """Return (start, sig_end_or_None, end) of the item whose header starts with the words in `item`
    (e.g. 'fn add', 'struct Duration', 'const X', 'impl Foo'), optionally inside the impl block whose
    header text (whitespace-normalised) equals `impl`."""
    lo, hi = 0, len(src)
    if impl:
        want = re.sub(r"\s+", " ", impl.strip())
        cands = []
        for m in find_code(src, r"\bimpl\b"):
            b = src.find("{", m.start())
            if b < 0:
                continue
            head = re.sub(r"\s+", " ", src[m.start():b].strip())
            if head == want:
                cands.append((b, match_brace(src, b)))
        if len(cands) == 0:
            raise AnchorLost("%s: impl header %r not found" % (relfile, impl))
        if len(cands) > 1:
            # several inherent impl blocks with the same header: the item must be in exactly one of them
            hits = []
            for b0, b1 in cands:
                try:
                    hits.append(_locate_in(src, relfile, item, b0 + 1, b1, nth, impl))
                except AnchorLost:
                    pass
            if len(hits) != 1:
                raise AnchorLost("%s: item %r found in %d of the %d blocks %r" % (relfile, item, len(hits), len(cands), impl))
            return hits[0]
        lo, hi = cands[0][0] + 1, cands[0][1]
    return _locate_in(src, relfile, item, lo, hi, nth, impl)


def _locate_in(src, relfile, item, lo, hi, nth, impl):
    words = item.split()
    pat = r"\b" + r"\s+".join(re.escape(w) for w in words) + r"\b"
    ms = find_code(src, pat, lo, hi)
    # only items at the top nesting level of [lo,hi)
    top = []
    for m in ms:
        depth, j = 0, lo
        while j < m.start():
            k = skip_trivia(src, j)
            if k != j:
                j = k
                continue
            if src[j] == "{":
                depth += 1
            elif src[j] == "}":
                depth -= 1
            j += 1
        if depth == 0:
            top.append(m)
    if nth is not None:
        if nth > len(top):
            raise AnchorLost("%s: item %r occurrence %d not found" % (relfile, item, nth))
        top = [top[nth - 1]]
    if len(top) != 1:
        raise AnchorLost("%s: item %r%s found %d times" % (relfile, item, " in " + impl if impl else "", len(top)))
    s = top[0].start()
    # body / terminator
    j = top[0].end()
    pd = 0
    while j < hi:
        k = skip_trivia(src, j)
        if k != j:
            j = k
            continue
        c = src[j]
        if c in "([":
            pd += 1
        elif c in ")]":
            pd -= 1
        elif c == "{" and pd == 0:
            e = match_brace(src, j)
            # struct-like `struct X {..}` ends at }, `struct X(..);` handled by ';'
            return s, j, e + 1
        elif c == ";" and pd == 0:
            return s, None, j + 1
        j += 1
    raise AnchorLost("%s: item %r has no body" % (relfile, item))


def strip_vis(t):
    t = re.sub(r"\bpub\s*\([^)]*\)\s*", "", t)
    t = re.sub(r"\bpub\s+", "", t)
    return t


def strip_attrs(t):
    # remove outer attributes and doc comments inside the copied item
    t = re.sub(r"^[ \t]*#\[[^\]]*\]\s*\n", "", t, flags=re.M)
    t = re.sub(r"^[ \t]*///.*\n", "", t, flags=re.M)
    return t


# ------------------------------------------------------------------ unit files
def parse_kv(s):
    out = {}
    for m in re.finditer(r'(\w+)=("([^"]*)"|\S+)', s):
        out[m.group(1)] = m.group(3) if m.group(3) is not None else m.group(2)
    return out


def parse_unit_file(path):
    txt = open(path).read()
    m = re.search(r"//\s*@unit\s+(.*)", txt)
    if not m:
        raise ValueError("%s: no @unit line" % path)
    unit = parse_kv(m.group(1))
    unit["path"] = path
    unit["text"] = txt
    obl = []
    lines = txt.split("\n")
    i = 0
    while i < len(lines):
        om = re.match(r"\s*//@obligation\s+(.*)", lines[i])
        if om:
            kv = parse_kv(om.group(1))
            st = []
            i += 1
            while i < len(lines) and re.match(r"\s*//@\s{2,}", lines[i]):
                st.append(re.sub(r"^\s*//@\s+", "", lines[i]))
                i += 1
            obl.append(dict(name=kv["name"], props=kv.get("props", "").split(","), kind=kv.get("kind", "proof"),
                            tier=kv.get("tier", "quick"), fn=[x for x in kv.get("fn", "").split(",") if x],
                            known=kv.get("known"), pair=kv.get("pair"), statement=" ".join(st), bounds=kv.get("bounds", ""), at=kv.get("at")))
            continue
        i += 1
    unit["obligations"] = obl
    return unit


def generate(unit):
    """Return (generated text, rewrites list, canary text)."""
    lines = unit["text"].split("\n")
    out = []
    canaries = []
    rewrites = []
    i = 0
    while i < len(lines):
        l = lines[i]
        em = re.match(r"\s*//@extract\s+(.*)", l)
        if not em:
            if not re.match(r"\s*//@", l):
                out.append(l)
            i += 1
            continue
        kv = parse_kv(em.group(1))
        sections = {"spec": [], "proof": [], "loops": {}, "rewrite": [], "before": [], "after_sig": []}
        cur = None
        i += 1
        while i < len(lines) and not re.match(r"\s*//@end", lines[i]):
            sm = re.match(r"\s*//@(\w+)\s*(.*)", lines[i])
            if sm:
                tag, arg = sm.group(1), sm.group(2).strip()
                if tag == "spec":
                    cur = sections["spec"]
                elif tag == "proof":
                    cur = sections["proof"]
                elif tag == "loop":
                    cur = sections["loops"].setdefault(int(arg), [])
                elif tag == "rewrite":
                    rm = re.match(r'(\d+)\s+"(.*)"\s*=>\s*"(.*)"$', arg)
                    if not rm:
                        raise ValueError("%s: bad //@rewrite %r" % (unit["path"], arg))
                    sections["rewrite"].append((int(rm.group(1)), rm.group(2), rm.group(3)))
                    cur = None
                elif tag == "before":
                    blk = []
                    sections["before"].append((arg.strip('"'), blk))
                    cur = blk
                else:
                    raise ValueError("%s: unknown section //@%s" % (unit["path"], tag))
            elif cur is not None:
                cur.append(lines[i])
            i += 1
        i += 1  # skip //@end
        relfile = kv["file"]
        path = os.path.join(scratch.REPO, relfile)
        if not os.path.exists(path):
            raise AnchorLost("%s: file not found" % relfile)
        src = open(path).read()
        s, b, e = locate_item(src, relfile, kv["item"], kv.get("impl"), int(kv["nth"]) if "nth" in kv else None)
        text = src[s:e]
        applied = ["%s `%s`: copied verbatim (%d bytes)" % (relfile, kv["item"], e - s)]
        if kv["item"].split()[0] not in ("fn",) and not kv["item"].startswith("const fn"):
            t = strip_vis(strip_attrs(text))
            if t != text:
                applied.append("%s `%s`: visibility qualifiers / attributes / doc comments removed" % (relfile, kv["item"]))
            for cnt, a, bb in sections["rewrite"]:
                if t.count(a) != cnt:
                    raise AnchorLost("%s `%s`: rewrite source %r occurs %d times, expected %d" % (relfile, kv["item"], a, t.count(a), cnt))
                t = t.replace(a, bb)
                applied.append("%s `%s`: declared rewrite %r => %r (x%d)" % (relfile, kv["item"], a, bb, cnt))
            out.append(t)
            rewrites += applied
            continue
        if b is None:
            raise AnchorLost("%s: %r has no body" % (relfile, kv["item"]))
        sig = src[s:b].rstrip()
        body = src[b:e]  # includes braces
        sig2 = strip_vis(sig)
        sig2 = re.sub(r"^\s*const\s+fn\b", "fn", sig2)
        if sig2 != sig:
            applied.append("%s `%s`: visibility / `const` removed from the signature" % (relfile, kv["item"]))
        if "rename" in kv:
            sig2 = re.sub(r"\bfn\s+\w+", "fn " + kv["rename"], sig2, count=1)
            applied.append("%s `%s`: emitted under the name %s" % (relfile, kv["item"], kv["rename"]))
        if "selfty" in kv:
            # trait-impl method emitted as an inherent method / free function: `Self::Output` etc.
            for a, bb in [x.split("->") for x in kv["selfty"].split(";")]:
                sig2 = sig2.replace(a, bb)
                body = body.replace(a, bb)
            applied.append("%s `%s`: associated type names replaced (%s)" % (relfile, kv["item"], kv["selfty"]))
        if "ret" in kv:
            m2 = re.search(r"->\s*(.+)$", sig2, re.S)
            if not m2:
                raise AnchorLost("%s `%s`: no return type to name" % (relfile, kv["item"]))
            sig2 = sig2[:m2.start()] + "-> (%s: %s)" % (kv["ret"], m2.group(1).strip())
        # loops
        if sections["loops"]:
            heads = find_code(body, r"\b(while|for|loop)\b")
            for n, inv in sorted(sections["loops"].items(), reverse=True):
                if n > len(heads):
                    raise AnchorLost("%s `%s`: loop %d not found (%d loops)" % (relfile, kv["item"], n, len(heads)))
                hb = heads[n - 1].end()
                pd = 0
                while hb < len(body):
                    k = skip_trivia(body, hb)
                    if k != hb:
                        hb = k
                        continue
                    if body[hb] in "([":
                        pd += 1
                    elif body[hb] in ")]":
                        pd -= 1
                    elif body[hb] == "{" and pd == 0:
                        break
                    hb += 1
                body = body[:hb] + "\n" + "\n".join(inv) + "\n" + body[hb:]
        for anchor, blk in sections["before"]:
            ms = find_code(body, anchor)
            if len(ms) != 1:
                raise AnchorLost("%s `%s`: statement anchor %r matched %d times" % (relfile, kv["item"], anchor, len(ms)))
            ls = body.rfind("\n", 0, ms[0].start()) + 1
            body = body[:ls] + "\n".join(blk) + "\n" + body[ls:]
        for cnt, a, bb in sections["rewrite"]:
            if body.count(a) != cnt:
                raise AnchorLost("%s `%s`: rewrite source %r occurs %d times, expected %d" % (relfile, kv["item"], a, body.count(a), cnt))
            body = body.replace(a, bb)
            applied.append("%s `%s`: declared rewrite %r => %r (x%d)" % (relfile, kv["item"], a, bb, cnt))
        body2 = strip_attrs(body)
        if sections["proof"]:
            body2 = "{\n    proof {\n" + "\n".join(sections["proof"]) + "\n    }\n" + body2[1:]
        spec = "\n".join(sections["spec"])
        out.append(sig2 + "\n" + spec + "\n" + body2)
        rewrites += applied
        # canary: same requires, ensures false
        req = re.search(r"\brequires\b(.*?)(?=\bensures\b|\bdecreases\b|\Z)", spec, re.S)
        if req and req.group(1).strip():
            pm = re.search(r"fn\s+(\w+)\s*(<[^>]*>)?\s*\(", sig2, re.S)
            if pm:
                depth, j = 0, pm.end() - 1
                while j < len(sig2):
                    if sig2[j] == "(":
                        depth += 1
                    elif sig2[j] == ")":
                        depth -= 1
                        if depth == 0:
                            break
                    j += 1
                params = sig2[pm.end():j]
                params = re.sub(r"\bmut\s+(?=\w+\s*:)", "", params)
                if "self" not in params.split(",")[0] and "&mut" not in params and "old(" not in req.group(1):
                    canaries.append("proof fn canary_%s%s(%s)\n    requires %s\n    ensures false\n{}\n" % (
                        pm.group(1), pm.group(2) or "", params, req.group(1).strip().rstrip(",")))
    return "\n".join(out), rewrites, canaries


ERR_RE = re.compile(r"^(error(?:\[E\d+\])?): (.*)\n\s*--> ([^:\n]+):(\d+):(\d+)", re.M)


def run_verus(path, logdir, tag):
    t0 = time.time()
    p = subprocess.run([VERUS, os.path.basename(path), "--output-json", "--time-expanded", "--rlimit", "60"],
                       cwd=os.path.dirname(path), stdout=subprocess.PIPE, stderr=subprocess.PIPE, text=True, timeout=900)
    wall = time.time() - t0
    open(os.path.join(logdir, tag + ".stdout.json"), "w").write(p.stdout)
    open(os.path.join(logdir, tag + ".stderr.txt"), "w").write(p.stderr)
    try:
        js = json.loads(p.stdout)
    except Exception:
        js = None
    errs = [dict(kind=m.group(1), msg=m.group(2), line=int(m.group(4))) for m in ERR_RE.finditer(p.stderr)]
    return js, errs, p.stderr, wall


def fn_ranges(text):
    """(name, first line, last line) of every fn item in the generated file (1-based lines)."""
    out = []
    for m in find_code(text, r"\b(?:proof |spec |exec |open |closed )*fn\s+(\w+)"):
        j = m.end()
        pd = 0
        while j < len(text):
            k = skip_trivia(text, j)
            if k != j:
                j = k
                continue
            if text[j] in "([":
                pd += 1
            elif text[j] in ")]":
                pd -= 1
            elif text[j] == "{" and pd == 0:
                e = match_brace(text, j)
                out.append((m.group(1), text.count("\n", 0, m.start()) + 1, text.count("\n", 0, e) + 1))
                break
            elif text[j] == ";" and pd == 0:
                break
            j += 1
    return out


def run_unit(unit, obligations, logdir):
    gen, rewrites, canaries = generate(unit)
    d = os.path.join(scratch.SCRATCH_ROOT, "verus-%s-%d" % (unit["name"], os.getpid()))
    os.makedirs(d, exist_ok=True)
    try:
        path = os.path.join(d, unit["name"] + ".rs")
        open(path, "w").write(gen)
        open(os.path.join(logdir, "verus-%s.rs" % unit["name"]), "w").write(gen)
        js, errs, stderr, wall = run_verus(path, logdir, "verus-" + unit["name"])
        ranges = fn_ranges(gen)
        recs = []
        hard = [e for e in errs if e["kind"] != "error" or re.search(
            r"aborting|cannot find|mismatched|expected|unresolved|not supported|unsupported|The verifier does not|syntax|rlimit|Resource limit", e["msg"])]
        hard = [e for e in hard if not e["msg"].startswith("aborting")]
        vr = (js or {}).get("verification-results", {})
        breakdown = {}
        try:
            for mt in js["times-ms"]["smt"]["smt-run-module-times"]:
                for f in mt.get("function-breakdown", []):
                    breakdown[f["function"].split("::")[-1]] = f
        except Exception:
            pass
        unit_broken = js is None or vr.get("encountered-vir-error") or hard or \
            (not vr.get("success") and not errs)
        # canaries (vacuity of preconditions): every canary must FAIL
        vac = []
        if canaries and not unit_broken:
            cpath = os.path.join(d, unit["name"] + "_canary.rs")
            # the canary file = the generated file + canaries inside the verus! block
            idx = gen.rfind("} // verus!")
            if idx < 0:
                raise ValueError("%s: missing `} // verus!` terminator" % unit["path"])
            ctext = gen[:idx] + "\n".join(canaries) + "\n" + gen[idx:]
            open(cpath, "w").write(ctext)
            cjs, cerrs, cstderr, cwall = run_verus(cpath, logdir, "verus-" + unit["name"] + "-canary")
            cbd = {}
            try:
                for mt in cjs["times-ms"]["smt"]["smt-run-module-times"]:
                    for f in mt.get("function-breakdown", []):
                        cbd[f["function"].split("::")[-1]] = f
            except Exception:
                pass
            cvr = (cjs or {}).get("verification-results", {})
            canary_ok = cjs is not None and not cvr.get("encountered-vir-error") and not [e for e in cerrs if e["kind"] != "error"]
            for c in canaries:
                nm = re.search(r"proof fn (canary_\w+)", c).group(1)
                if not canary_ok:
                    vac.append("!" + nm)
                elif cbd.get(nm, {}).get("success", None) is not False:
                    vac.append(nm)
        for o in obligations:
            # `at=<fn name>#<k>`: the obligation is the k-th generated function of that name (two types with `fn new`)
            if o.get("at"):
                an, _, ak = o["at"].partition("#")
                cand = [r for r in ranges if r[0] == an]
                ak = int(ak or 1)
                rg = cand[ak - 1:ak]
            else:
                rg = [r for r in ranges if r[0] == o["name"]]
            rec = dict(name=o["name"], unit=unit["name"], backend="verus/z3", kind=o["kind"], functions=o["fn"],
                       statement=o["statement"], bounds=o.get("bounds", ""), known=o.get("known"), pair=o.get("pair"), rewrites=rewrites)
            if unit_broken:
                rec["status"] = "undecided"
                rec["reason"] = "Verus did not produce verdicts for the unit (unsupported construct / type error / rlimit): %s" % (
                    "; ".join("%s (line %d)" % (e["msg"], e["line"]) for e in (hard or errs)[:3]) or stderr[-300:])
            elif not rg:
                rec["status"] = "undecided"
                rec["reason"] = "obligation function %s not present in the generated file" % o["name"]
            else:
                mine = [e for e in errs if rg[0][1] <= e["line"] <= rg[0][2]]
                bd = breakdown.get(o["name"]) if not o.get("at") else None
                if mine or (bd and bd.get("success") is False):
                    rec["status"] = "fail"
                    rec["failed_checks"] = [dict(description=e["msg"], file=unit["name"] + ".rs (generated)", line=e["line"]) for e in mine]
                    rec["output"] = stderr[-6000:]
                elif ("canary_" + o["name"]) in vac:
                    rec["status"] = "vacuous"
                    rec["reason"] = "precondition canary verified `false`: contradictory requires"
                elif ("!canary_" + o["name"]) in vac:
                    rec["status"] = "undecided"
                    rec["reason"] = "the vacuity canary file did not compile (see logs)"
                else:
                    rec["status"] = "pass"
                    rec["solver_s"] = round((bd or {}).get("time-micros", 0) / 1e6, 4)
                    rec["rlimit"] = (bd or {}).get("rlimit")
            recs.append(rec)
        return recs
    finally:
        scratch.remove(d)
