#!/usr/bin/env python3
"""Regenerate MANIFEST.json from lib/claims.json (one entry per claimed property, one per not-applicable)."""
import json, os
V = os.path.dirname(os.path.dirname(os.path.abspath(__file__)))
c = json.load(open(os.path.join(V, "lib", "claims.json")))
checks = []
for pid, e in sorted(c["claimed"].items()):
    checks.append({
        "property_id": pid,
        "quick_cmd": "./check %s --tier quick" % pid,
        "thorough_cmd": "./check %s --tier thorough" % pid,
        "evidence_file": "/verif/evidence/%s.json" % pid,
        "replay_cmd_template": "./check %s --replay {path}" % pid,
        "engine": "contracts",
        "level_claimed": {"category": e["category"], "text": e["text"], "design_ref": "DESIGN.md section 4, %s" % pid},
        "level_note": e["note"],
        "technique": e.get("technique", "contract-based deductive verification: Kani (CBMC) obligations and function contracts on the real crate + Verus on verbatim-extracted functions"),
    })
m = {
    "version": 1,
    "setup_cmd": "./setup.sh",
    "hooks": {"guard": "none", "enable": "no hooks in /repo: harness modules and contract attributes are spliced into a scratch copy of /repo/dds made by ./check on every run (cfg(kani) / --cfg verif_replay exist only there)",
              "baseline_off_cmd": "cd /repo && cargo test --workspace --no-fail-fast --offline", "source_commits": [], "add_only": True},
    "engines": [{"name": "contracts", "path": "/verif/check", "serves_properties": sorted(c["claimed"].keys()),
                 "kind_free_text": "contract-based deductive verification driver: Kani 0.68/CBMC obligations + function contracts over the real dust_dds crate (scratch copy, nothing rewritten), Verus 0.2026.09.13 over verbatim-extracted functions, native replay of counterexamples"}],
    "checks": checks,
    "notes": c.get("notes", ""),
    "not_applicable": [{"property_id": k, "reason": v} for k, v in sorted(c["not_applicable"].items())],
}
json.dump(m, open(os.path.join(V, "MANIFEST.json"), "w"), indent=1)
try:
    import jsonschema
    jsonschema.validate(m, json.load(open("/root/.vp/MANIFEST.schema.json")))
    print("MANIFEST.json valid: %d checks, %d not applicable" % (len(checks), len(m["not_applicable"])))
except ImportError:
    print("written (jsonschema not available)")
