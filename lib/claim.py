#!/usr/bin/env python3
"""usage: claim.py <Cxx> <category> <technique-file-or-'-'> ; reads {"text":..,"note":..,"technique":..} JSON from stdin, moves the
property from not_applicable to claimed in lib/claims.json and regenerates MANIFEST.json"""
import sys, json, os, subprocess
V = os.path.dirname(os.path.dirname(os.path.abspath(__file__)))
pid = sys.argv[1]
e = json.load(sys.stdin)
p = os.path.join(V, "lib", "claims.json")
c = json.load(open(p))
c["not_applicable"].pop(pid, None)
c["claimed"][pid] = e
json.dump(c, open(p, "w"), indent=1)
subprocess.check_call(["python3-vt", os.path.join(V, "lib", "gen_manifest.py")])
