"""evidence/<id>.json writer: what this run covered, per obligation, with back end, solver time,
bounds, functions under contract and every assumption left unchecked."""
import os, json, re
import scratch

TRUSTED_COMMON = [
    "rustc / MIR semantics as implemented by kani-compiler 0.68 and by Verus 0.2026.09.13 (rust 1.98.1)",
    "Kani 0.68 + CBMC 6.11 + CaDiCaL (bit-precise; debug-profile semantics: arithmetic overflow is a checked obligation)",
    "Kani's models of alloc / core intrinsics / atomics",
    "Verus + Z3 (only for obligations whose backend is verus); vstd specifications of std items",
    "scratch copy of /repo/dds + /repo/dds_derive made at run time; dev-dependencies / benches dropped from Cargo.toml; harness modules, contract attributes and statement wrappers are added, no repository line is rewritten",
    "64-bit usize",
]


def scan_assumptions(units_used, kunits, vunits):
    out = []
    for u in kunits + vunits:
        if u["name"] not in units_used:
            continue
        txt = u["text"]
        for m in re.finditer(r"//\s*@assume\s+(.*)", txt):
            out.append("[%s] %s" % (u["name"], m.group(1).strip()))
        for kw in ("kani::stub", "external_body", "assume_specification", "admit()", "assume(false)"):
            c = txt.count(kw)
            if c:
                out.append("[%s] %d occurrence(s) of `%s` in the contract file (trusted, not proved)" % (u["name"], c, kw))
    return out


def write(prop, tier, seed, records, wall, nviol, kunits, vunits):
    claim = [r for r in records if not (r.get("verdict", "").startswith("known-finding") or r.get("verdict") in ("finder-no-counterexample", "violation-see-pair"))]
    disc = [r for r in claim if r.get("verdict") == "discharged"]
    all_proof = all(r["kind"] == "proof" for r in claim) and len(claim) > 0
    # "proof" is only a valid record when every claimed obligation was discharged on this run; a run with a
    # failed or undecided obligation is recorded as level "other" (the explanation says what was not discharged)
    level = "proof" if all_proof and len(disc) == len(claim) else "other"
    per = []
    funcs = []
    for r in records:
        per.append({k: r.get(k) for k in ("name", "unit", "backend", "kind", "verdict", "status", "solver_s", "checks",
                                           "covers", "bounds", "functions", "statement", "reason", "cbmc_args", "known")
                    if r.get(k) not in (None, "", [])})
        for f in r.get("functions") or []:
            if f not in funcs:
                funcs.append(f)
    nproof = len([r for r in claim if r["kind"] == "proof"])
    nbounded = len([r for r in claim if r["kind"] != "proof"])
    units_used = set(r["unit"] for r in records)
    expl = ("%d obligations over the real functions: %d complete (Verus, or Kani harness that is loop-free / fixed-size over the "
            "full symbolic input domain), %d bounded (Kani with the stated container/length bounds; labelled bounded, never "
            "counted as proved). %d discharged on this run. Known-finding probes (expected to fail, not counted): %d. "
            "See per_obligation for statement, back end, solver time and bounds; DESIGN.md section 4 for what is not decided."
            % (len(claim), nproof, nbounded, len(disc), len(records) - len(claim)))
    notd = [r for r in claim if r.get("verdict") != "discharged"]
    if notd:
        expl += " NOT discharged on this run: " + ", ".join("%s (%s)" % (r["name"], r.get("verdict")) for r in notd) + "."
    cov = {
        "obligations": len(claim),
        "discharged": len(disc),
        "obligations_complete_proof": nproof,
        "obligations_bounded": nbounded,
        "checker_cmd": "./check %s --tier %s  (cargo kani -p dust_dds -Z function-contracts -Z stubbing --exact --harness ... --cbmc-args ... ; verus <unit>.rs --output-json --time)" % (prop, tier),
        "trusted_base": TRUSTED_COMMON,
        "explanation": expl,
        "functions_under_contract": funcs,
        "per_obligation": per,
        "samples": [{"obligation": r["name"], "statement": r["statement"], "backend": r["backend"]} for r in records[:6]],
        "solver_time_s": round(sum((r.get("solver_s") or 0) for r in records), 2),
        "extraction": sorted(set(x for r in records for x in (r.get("rewrites") or []))),
    }
    e = {
        "property_id": prop, "tier": tier, "seed": seed, "level": level, "coverage": cov,
        "assumptions": scan_assumptions(units_used, kunits, vunits),
        "wall_s": round(wall, 1), "violations": nviol,
    }
    # VERIF_EVIDENCE_DIR: used by seeded/try.sh so that runs against a deliberately broken tree never
    # overwrite the evidence of the unchanged tree
    edir = os.environ.get("VERIF_EVIDENCE_DIR") or os.path.join(scratch.VERIF, "evidence")
    os.makedirs(edir, exist_ok=True)
    p = os.path.join(edir, "%s.json" % prop)
    json.dump(e, open(p, "w"), indent=1)
    try:
        import jsonschema
        jsonschema.validate(e, json.load(open("/root/.vp/EVIDENCE.schema.json")))
    except ImportError:
        pass
    return p
