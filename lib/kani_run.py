"""Run Kani harnesses spliced into a scratch copy of the real crate and parse the verdicts."""
import os, re, subprocess, time, json, shlex
import scratch

KANI_Z = ["-Z", "function-contracts", "-Z", "stubbing", "-Z", "unstable-options"]
TARGET = os.path.join(scratch.CACHE, "kani-target")


def parse_unit_file(path):
    """A unit file is the text of a harness module.  Metadata lives in comments:
       // @unit name=<n> file=<repo relative path> [unwind=3] [unwindset=a:1,b:2]
       before each harness a doc block with
       /// @props C14 C31      /// @kind proof|bounded     /// @tier quick|thorough
       /// @fn f, g            /// @bounds text            /// @known <finding id>
       /// @cbmc <extra cbmc args replacing the unit default>
       /// @unwind_failure violation   (default: undecided)
       /// free text = the obligation statement
    """
    txt = open(path).read()
    m = re.search(r"//\s*@unit\s+(.*)", txt)
    if not m:
        raise ValueError("%s: no @unit line" % path)
    unit = dict(kv.split("=", 1) for kv in m.group(1).split())
    unit["harness_file"] = os.path.relpath(path, scratch.VERIF)
    unit["text"] = txt
    unit.setdefault("unwind", "3")
    unit.setdefault("unwindset", "memcmp.0:18")
    stm = []
    for sm in re.finditer(r"//\s*@statement\s+(\{.*\})", txt):
        stm.append(json.loads(sm.group(1)))
    unit["statements"] = stm
    att = []
    for am in re.finditer(r"//\s*@attr\s+(\{.*\})", txt):
        att.append(json.loads(am.group(1)))
    unit["attrs"] = att
    harnesses = {}
    lines = txt.split("\n")
    for i, l in enumerate(lines):
        if re.search(r"#\[cfg_attr\(kani,\s*kani::(proof|proof_for_contract)", l):
            # function name: first following line with fn
            name = None
            for k in range(i, min(i + 8, len(lines))):
                fm = re.search(r"\bfn\s+([A-Za-z0-9_]+)\s*\(", lines[k])
                if fm:
                    name = fm.group(1)
                    break
            if not name:
                raise ValueError("%s:%d harness without fn" % (path, i + 1))
            meta = {"props": [], "kind": "proof", "tier": "quick", "fn": [], "bounds": "", "statement": [],
                    "known": None, "cbmc": None, "unwind_failure": "undecided", "timeout": None, "role": "obligation",
                    "loops": unit.get("loops")}
            j = i - 1
            doc = []
            while j >= 0 and (lines[j].strip().startswith("///") or lines[j].strip().startswith("#[")):
                if lines[j].strip().startswith("///"):
                    doc.append(lines[j].strip()[3:].strip())
                j -= 1
            doc.reverse()
            for d in doc:
                dm = re.match(r"@(\w+)\s*(.*)", d)
                if dm:
                    k, v = dm.group(1), dm.group(2).strip()
                    if k == "props":
                        meta["props"] = v.split()
                    elif k == "fn":
                        meta["fn"] = [x.strip() for x in v.split(",") if x.strip()]
                    elif k in ("kind", "tier", "bounds", "known", "cbmc", "unwind_failure", "timeout", "role", "loops"):
                        meta[k] = v
                    else:
                        raise ValueError("%s: unknown tag @%s" % (path, k))
                else:
                    meta["statement"].append(d)
            meta["statement"] = " ".join(meta["statement"]).strip()
            if not meta["props"]:
                raise ValueError("%s: harness %s has no @props" % (path, name))
            harnesses[name] = meta
    unit["harnesses"] = harnesses
    return unit


def fqn(unit, h):
    mp = scratch.module_path_of(unit["file"])[len("crate"):].lstrip(":")
    return (mp + "::" if mp else "") + "verif_kani_%s::%s" % (unit["name"], h)


def cbmc_args_for(unit, meta):
    if meta.get("cbmc"):
        return meta["cbmc"]
    return "--unwind %s --unwindset %s" % (unit["unwind"], unit["unwindset"])


def _clean(log):
    out = []
    for l in log.split("\n"):
        if re.match(r"^\s*(\||-->|= note|= help)", l) or "register_tool" in l or re.match(r"^\s*\^+\s*$", l):
            continue
        out.append(l)
    return "\n".join(out)


def _prune_old_builds(max_age_s=36 * 3600):
    """goto binaries of earlier harness sets pile up under the shared Kani target dir: drop stale ones.  A build dir is
    reused (same scratch path => same crate hash) and its own mtime does not change when files below it do, so the age is
    taken from the newest entry of its out/ directory; anything touched within the last 36 h is left alone (another check
    may be using it right now)."""
    import glob, shutil
    now = time.time()
    for d in glob.glob(os.path.join(TARGET, "kani", "*", "debug", "build", "dust_dds", "*")):
        try:
            newest = os.path.getmtime(d)
            out = os.path.join(d, "out")
            if os.path.isdir(out):
                newest = max(newest, os.path.getmtime(out))
                with os.scandir(out) as it:
                    for i, e in enumerate(it):
                        newest = max(newest, e.stat().st_mtime)
                        if i > 200:
                            break
            if now - newest > max_age_s:
                shutil.rmtree(d, ignore_errors=True)
        except OSError:
            pass


def resolve_loops(scratch_dir, names, loops_spec, env, logp):
    """loops_spec: 'fn-substring:bound,...'.  Library loops (e.g. core::num::<impl u64>::overflowing_pow, reached from
    behavior_types::Duration::from_millis in every RtpsStatefulWriter::new) carry a crate hash in their CBMC loop id that
    changes per build, so they are resolved here: compile only, `cbmc --show-loops` on each harness' goto binary, match
    the pretty function name.  Returns 'id:bound,...' (may be empty)."""
    import glob
    want = []
    for part in loops_spec.split(","):
        part = part.strip()
        if part:
            a, b = part.rsplit(":", 1)
            want.append((a.strip(), int(b)))
    cmd = ["cargo", "kani", "-p", "dust_dds"] + KANI_Z + ["--exact", "--only-codegen"]
    for n in names:
        cmd += ["--harness", n]
    t0 = time.time()
    with open(logp, "w") as lf:
        lf.write("$ " + " ".join(shlex.quote(c) for c in cmd) + "\n")
        lf.flush()
        subprocess.run(cmd, cwd=scratch_dir, env=env, stdout=lf, stderr=subprocess.STDOUT, timeout=3600)
    found = {}
    for n in names:
        short = n.split("::")[-1]
        cands = [f for f in glob.glob(os.path.join(TARGET, "kani", "*", "debug", "build", "dust_dds", "*", "out", "*%s.out" % short))
                 if not f.endswith(".symtab.out") and os.path.getmtime(f) >= t0 - 5]
        if not cands:
            cands = sorted([f for f in glob.glob(os.path.join(TARGET, "kani", "*", "debug", "build", "dust_dds", "*", "out", "*%s.out" % short))
                            if not f.endswith(".symtab.out")], key=os.path.getmtime)[-1:]
        for f in cands:
            try:
                out = subprocess.run(["cbmc", "--show-loops", f], stdout=subprocess.PIPE, stderr=subprocess.DEVNULL,
                                     text=True, timeout=600).stdout
            except subprocess.TimeoutExpired:
                continue
            for m in re.finditer(r"^Loop (\S+):\n\s+file .* function (.*)$", out, re.M):
                lid, fn = m.group(1), m.group(2)
                for sub, bound in want:
                    if sub in fn:
                        found[lid] = max(bound, found.get(lid, 0))
    return ",".join("%s:%d" % (k, v) for k, v in sorted(found.items()))


def run(scratch_dir, items, jobs, harness_timeout, logdir, tag):
    """items: list of (unit, harness name, meta).  Returns {fqn: result}."""
    os.makedirs(logdir, exist_ok=True)
    env = dict(os.environ, CARGO_TARGET_DIR=TARGET, CARGO_NET_OFFLINE="true")
    _prune_old_builds()
    groups = {}
    for unit, h, meta in items:
        groups.setdefault((cbmc_args_for(unit, meta), int(meta.get("timeout") or harness_timeout), meta.get("loops") or ""), []).append((unit, h, meta))
    results = {}
    gi = 0
    for (cargs, tmo, loops), its in groups.items():
        gi += 1
        names = [fqn(u, h) for u, h, _ in its]
        if loops:
            extra = resolve_loops(scratch_dir, names, loops, env, os.path.join(logdir, "%s-g%d-codegen.log" % (tag, gi + 0)))
            if extra:
                if "--unwindset" in cargs:
                    cargs = re.sub(r"(--unwindset\s+)(\S+)", lambda m: m.group(1) + m.group(2) + "," + extra, cargs, count=1)
                else:
                    cargs = cargs + " --unwindset " + extra
        cmd = ["cargo", "kani", "-p", "dust_dds"] + KANI_Z + ["--exact"]
        for n in names:
            cmd += ["--harness", n]
        cmd += ["-j", str(max(2, min(jobs, len(names)))), "--output-format=terse",
                "--harness-timeout", "%ds" % tmo, "--cbmc-args"] + shlex.split(cargs)
        t0 = time.time()
        logp = os.path.join(logdir, "%s-g%d.log" % (tag, gi))
        with open(logp, "w") as lf:
            lf.write("$ " + " ".join(shlex.quote(c) for c in cmd) + "\n")
            lf.flush()
            try:
                p = subprocess.run(cmd, cwd=scratch_dir, env=env, stdout=lf, stderr=subprocess.STDOUT,
                                   timeout=tmo * ((len(names) + jobs - 1) // max(1, jobs)) + 900)
                rc = p.returncode
            except subprocess.TimeoutExpired:
                rc = -9
                subprocess.run(["pkill", "-f", "cbmc.*" + os.path.basename(scratch_dir)])
        wall = time.time() - t0
        log = _clean(open(logp).read())
        parsed = parse_terse(log)
        compile_failed = ("error: could not compile" in log or "error[E" in log or
                          "Failed to execute cargo" in log)
        for (u, h, meta), n in zip(its, names):
            r = parsed.get(n)
            if r is None:
                r = {"status": "undecided",
                     "reason": "compile error in spliced crate (see %s)" % logp if compile_failed
                     else "no verdict in Kani output (rc=%s, see %s)" % (rc, logp)}
            r.update({"unit": u["name"], "harness": h, "fqn": n, "cbmc_args": cargs, "log": logp,
                      "group_wall_s": round(wall, 1)})
            results[n] = r
    return results


def parse_terse(log):
    """Map harness fqn -> {status, failed_checks, checks_total, checks_failed, covers, time_s}"""
    res = {}
    cur_by_thread = {}
    lines = log.split("\n")
    i = 0
    while i < len(lines):
        l = lines[i]
        m = re.match(r"(?:Thread (\d+): )?Checking harness (\S+?)\.\.\.", l)
        if m:
            cur_by_thread[m.group(1) or "0"] = m.group(2)
            i += 1
            continue
        m = re.match(r"Thread (\d+):\s*$", l)
        if m or l.startswith("VERIFICATION RESULT:"):
            th = m.group(1) if m else "0"
            name = cur_by_thread.get(th)
            blk = []
            i += 1
            while i < len(lines) and not re.match(r"Thread \d+:|Manual Harness Summary|Complete - ", lines[i]):
                blk.append(lines[i])
                if lines[i].startswith("Verification Time:"):
                    i += 1
                    break
                i += 1
            b = "\n".join(blk)
            r = {"status": "undecided", "failed_checks": [], "raw": b.strip()[:4000]}
            sm = re.search(r"\*\* (\d+) of (\d+) failed", b)
            if sm:
                r["checks_failed"], r["checks_total"] = int(sm.group(1)), int(sm.group(2))
            cm = re.search(r"\*\* (\d+) of (\d+) cover properties satisfied", b)
            if cm:
                r["covers_sat"], r["covers_total"] = int(cm.group(1)), int(cm.group(2))
            tm = re.search(r"Verification Time: ([0-9.]+)s", b)
            if tm:
                r["time_s"] = float(tm.group(1))
            for fm in re.finditer(r"Failed Checks: (.*)\n File: \"([^\"]+)\", line (\d+), in (\S+)", b):
                r["failed_checks"].append({"description": fm.group(1).strip(), "file": fm.group(2),
                                           "line": int(fm.group(3)), "function": fm.group(4)})
            if "VERIFICATION:- SUCCESSFUL" in b:
                if r.get("covers_total", 0) and r.get("covers_sat", 0) < r["covers_total"]:
                    r["status"] = "vacuous"
                    r["reason"] = "cover properties unsatisfied (%d of %d)" % (r["covers_sat"], r["covers_total"])
                else:
                    r["status"] = "pass"
            elif "VERIFICATION:- FAILED" in b:
                descs = [f["description"] for f in r["failed_checks"]]
                if descs and all("unwinding assertion" in d for d in descs):
                    r["status"] = "unwind"
                elif re.search(r"CBMC (timed out|failed)|out of memory|timed out", b, re.I) and not descs:
                    r["status"] = "undecided"
                    r["reason"] = "CBMC timeout / resource limit"
                elif not descs:
                    r["status"] = "undecided"
                    r["reason"] = "FAILED without failed checks: " + b.strip()[-300:]
                else:
                    r["status"] = "fail"
            else:
                r["reason"] = "no verdict: " + b.strip()[-300:]
            if name:
                res[name] = r
            continue
        i += 1
    return res


def playback(scratch_dir, unit, h, meta, logdir, timeout, cbmc_args=None):
    """Re-run one failing harness with --concrete-playback=print; return list of byte vectors (or None)."""
    env = dict(os.environ, CARGO_TARGET_DIR=TARGET, CARGO_NET_OFFLINE="true")
    n = fqn(unit, h)
    cmd = ["cargo", "kani", "-p", "dust_dds"] + KANI_Z + ["-Z", "concrete-playback", "--exact", "--harness", n,
           "--concrete-playback=print", "--harness-timeout", "%ds" % timeout, "--cbmc-args"] + \
        shlex.split(cbmc_args or cbmc_args_for(unit, meta))
    logp = os.path.join(logdir, "playback-%s-%s.log" % (unit["name"], h))
    with open(logp, "w") as lf:
        try:
            subprocess.run(cmd, cwd=scratch_dir, env=env, stdout=lf, stderr=subprocess.STDOUT, timeout=timeout + 600)
        except subprocess.TimeoutExpired:
            return None, logp, []
    log = _clean(open(logp).read())
    # Kani prints one playback test per failed check AND per satisfied cover: keep them all, the caller replays
    # each until one reproduces the failure natively
    vals = None
    for m in re.finditer(r"let concrete_vals: Vec<Vec<u8>> = vec!\[(.*?)\n\s*\];", log, re.S):
        one = []
        for vm in re.finditer(r"vec!\[([0-9, ]*)\]", m.group(1)):
            one.append([int(x) for x in vm.group(1).split(",") if x.strip()])
        if vals is None:
            vals = []
        if one not in vals:
            vals.append(one)
    fails = []
    for cm in re.finditer(r"Check \d+: (\S+)\n\s*- Status: FAILURE\n\s*- Description: \"(.*)\"\n\s*- Location: (\S+)", log):
        fails.append({"check": cm.group(1), "description": cm.group(2), "location": cm.group(3)})
    return vals, logp, fails
