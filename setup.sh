#!/bin/sh
# Offline setup: nothing to download.  Warms the persistent Kani / replay dependency caches under
# /verif/.cache (not required for correctness: ./check builds whatever is missing).
set -e
cd "$(dirname "$0")"
mkdir -p .cache evidence replay logs
command -v cargo-kani >/dev/null && command -v verus >/dev/null
python3 -c "import json; json.load(open('MANIFEST.json'))"
echo setup ok
